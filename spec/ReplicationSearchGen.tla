------------------------ MODULE ReplicationSearchGen ------------------------
(* Case generation for C19: one record per (directory, kind) with the files  *)
(* of the test server rendered in the planet layout (paths, bodies) and all   *)
(* query times; the harness runs every query against the served directory.   *)
EXTENDS MC_ReplicationSearch, IOUtils, Json, SequencesExt
CONSTANTS Seed,          \* varies which kind / rendering profile a directory gets
          AllKinds,      \* TRUE: every directory with all (fitting) kinds of OnlyKinds; FALSE: one kind per directory
          OnlyKinds      \* with AllKinds: restricts the kinds (lets the driver split the generation over processes)

KindSeq == <<"minute", "hour", "day", "changesets">>
Hash(d) == d.cur + 3 * d.first + 5 * Cardinality(d.present) + Seed
\* TLC integers are 32 bit: a kind is used only where its timestamps stay below 2038 (these limits are beyond
\* today's sequence numbers on the planet server: day ~ 4 500, hour ~ 110 000, minute and changesets ~ 6 500 000)
MaxCur(kind) == CASE kind = "day" -> 8000 [] kind = "hour" -> 200000 [] OTHER -> 10000000
Fitting(d)   == SelectSeq(KindSeq, LAMBDA k : d.cur <= MaxCur(k))
KindsFor(d)  == IF AllKinds THEN {k \in OnlyKinds : d.cur <= MaxCur(k)}
                ELSE {Fitting(d)[(Hash(d) % Len(Fitting(d))) + 1]}
Render(d, kind) == LET h == Hash(d) + Len(kind) IN
  UniformTime(kind, (h \div 2) % 2) @@
  [style |-> (h \div 4) % 2, prefix |-> IF (h \div 8) % 3 = 0 THEN "/mirror/planet" ELSE "",
   \* how the client builds its Datasource (own client / NewDatasource(client) / no client, BaseURL only) and
   \* whether the server honours Accept-Encoding: gzip (compressed body + Content-Encoding) - both invisible to
   \* the search: the state files read are the same
   ds |-> <<"own", "new", "nilclient">>[((h \div 3 + Seed) % 3) + 1], gz |-> (h \div 5 + Seed) % 2,
   lay |-> (7 * h + Seed) % 384, lists |-> IF Cardinality(d.present) <= 300 THEN 1 ELSE 0,
   \* the changeset directory's seam: none (all minus one), above the newest (all equal), in the middle, after the oldest
   seam |-> CASE (h + Seed) % 4 = 0 -> 0 [] (h + Seed) % 4 = 1 -> d.cur + 1
              [] (h + Seed) % 4 = 2 -> ((d.first + d.cur) \div 2) + 1 [] OTHER -> d.first + 1]
\* pause family: states two seconds apart, a pause of about ten years (32-bit seconds leave room for two)
PauseRender(d, kind, pauses) == [Render(d, kind) EXCEPT !.skew = 0, !.unit = 1, !.pauses = pauses, !.pauselen = 300000000]

\* query times: all of them for small directories, SelectedQueries for long ones (FullQueries is small here)
QueriesFor(d) == QueriesOf(d, FullQueries)

\* a query: abstract time q, its concrete rendering (sec, nsec) and the time zone (seconds east of UTC) the
\* time.Time value handed to XxxStateAt is expressed in (same instant)
Zone(k) == CASE k % 3 = 0 -> 0 [] k % 3 = 1 -> 19800 [] OTHER -> 0 - 28800
QueryRec(r, q, side) == [op |-> "at", q |-> q, sec |-> QSec(r, q, side), nsec |-> Nsec(r.kind, q), tz |-> Zone(q + Seed)]
Sides(r, q) == IF \E p \in r.pauses : 2 * p + 1 = q THEN {0, 1} ELSE {0}     \* inside a pause: just after p, just before p+1
\* sub-second query grid (FineTimes): every odd query of the changeset kind (its state files carry nanoseconds),
\* and of the other kinds in the smallest directories
Fine(d, r, q) == q % 2 = 1 /\ (r.kind = "changesets" \/ d.cur <= 6)
FineRecs(d, r, q) == IF Fine(d, r, q) THEN {[op |-> "at", q |-> q, sec |-> x[1], nsec |-> x[2], tz |-> Zone(x[2] + q)] : x \in FineTimes(r, q)} ELSE {}
\* One record is one client history: the calls are made in this order, in one process, against one server.
\* After every query time once (BaseCalls) the history repeats calls it has already made (Repeats): the current
\* state (op "current" = CurrentXxxState; abstractly the lookup for a time after all states, q = 2*cur+1), the
\* lookup after all states, the first and a middle query of the history - an answer must not depend on what was
\* asked before (Judge clause HistoryIndependent).
BaseCalls(d, r, qs) == SetToSeq(UNION {{QueryRec(r, q, side) : side \in Sides(r, q)} \cup FineRecs(d, r, q) : q \in qs})
Repeats(d, r, qs) == LET qa == 2 * d.cur + 1   sq == SetToSeq(qs)
                         cur == [QueryRec(r, qa, 0) EXCEPT !.op = "current"]
                     IN  IF qa \notin qs THEN Assert(FALSE, "the query after all states is always generated")
                         ELSE <<cur, QueryRec(r, qa, 0), QueryRec(r, sq[(Len(sq) + 1) \div 2], 0), cur,
                                QueryRec(r, qa, 1), QueryRec(r, sq[1], 0)>>
GenRecWith(d, r, qs) == LET c == CaseOf(d, 0, NoDevs) IN
  [kind |-> r.kind, skew |-> r.skew, style |-> r.style, prefix |-> r.prefix,
   unit |-> r.unit, pauses |-> SetToSeq(r.pauses), pauselen |-> r.pauselen, lay |-> r.lay, lists |-> r.lists, seam |-> r.seam, ds |-> r.ds, gz |-> r.gz,
   present |-> SetToSeq(d.present), first |-> d.first, cur |-> d.cur,
   bound |-> c.bound, cap |-> Cap(c),
   current |-> CurrentFile(r, c),
   files |-> [i \in 1 .. Cardinality(d.present) |-> FileOf(r, SetToSeq(d.present)[i])],
   queries |-> BaseCalls(d, r, qs) \o Repeats(d, r, qs)]
GenRec(d, kind) == GenRecWith(d, Render(d, kind), QueriesFor(d))
PauseRec(pl, kind) == GenRecWith(pl.d, PauseRender(pl.d, kind, pl.pauses), pl.qs)
\* one kind per plan when kinds are rotated: the pause places of one size then cover several kinds
PauseKinds(pl) == IF AllKinds THEN KindsFor(pl.d)
                  ELSE {Fitting(pl.d)[((Hash(pl.d) + SetMax(pl.pauses) + Cardinality(pl.pauses)) % Len(Fitting(pl.d))) + 1]}
GenRecs == UNION {{GenRec(d, kind) : kind \in KindsFor(d)} : d \in MCDirs}
             \cup UNION {{PauseRec(pl, kind) : kind \in PauseKinds(pl)} : pl \in PausePlans(PauseSizes)}
ASSUME ndJsonSerialize(IOEnv.OUT, SetToSeq(GenRecs))
GInit == cs = 0 /\ st = 0
GNext == UNCHANGED vars
=============================================================================
