CONSTANTS
  NK = 1
  MaxV <- V3
  MaxP = 1
  MaxT = 5
  MaxDt = 3
  CsSet = {1, 2}
  ParentCsFree = TRUE
  RefLists <- RefsSingle
  SameTimeParents = FALSE
  RefsMustExist = TRUE
  GenOpts <- OptsStamp2
  SampleMod = 1
INIT HInit
NEXT HNext
INVARIANTS HistoryOK GenInv
CHECK_DEADLOCK FALSE
