CONSTANTS
  Chunks = 64
  FullFor = {}
  FormerTree = FALSE
  Variants = {TRUE}
INIT Init
NEXT Next
INVARIANTS ModelledOnly MachineIsConv AsIsIsIdeal AtMostOneInv CarriesInv MetaMemberInv NodeRuleInv WayGeomInv RouteInv OptionsInv SkipInv
PROPERTY InputUnmodified
CHECK_DEADLOCK FALSE
