\* case generation, thorough tier, one of three processes: Singles of kind way (HMax 5, both input flags),
\* Houses, Failing (duplicates across the three processes are dropped by the driver); random draws: AnnotateChangeGenR
CONSTANTS
  HMax = 5
  SingleKinds = {"way"}
  BothVis = TRUE
  PairVers = {}
  NRandom = 0
  BuildMax = 0
  BuildIds = {}
  WithFamilies = FALSE
  StaticInit = TRUE
INIT GInit
NEXT GNext
CHECK_DEADLOCK FALSE
