---------------------------- MODULE PbfGenWalk ----------------------------
EXTENDS PbfGen
ASSUME ndJsonSerialize(IOEnv.OUT, <<[configs |-> SetToSeq(WalkConfigs), stop |-> SetToSeq(StopScripts), plain |-> SetToSeq(PlainScripts),
                                           jitter |-> SetToSeq(JitterConfigs)]>>)
JInitG == /\ cfg = 0 /\ started = 0 /\ cancelled = 0 /\ parentCancelled = 0 /\ rpc = 0 /\ ri = 0 /\ rpos = 0 /\ rerr = 0 /\ rpair = 0
          /\ readsAfterStop = 0 /\ inq = 0 /\ inClosed = 0 /\ wpc = 0 /\ wcur = 0 /\ outq = 0 /\ outClosed = 0 /\ spc = 0 /\ sj = 0
          /\ scur = 0 /\ tErr = 0 /\ serq = 0 /\ serClosed = 0 /\ cpc = 0 /\ cData = 0 /\ cIndex = 0 /\ pOff = 0 /\ cOff = 0 /\ sErr = 0
          /\ closed = 0 /\ delivered = 0 /\ lastScan = 0 /\ hist = 0 /\ sched = 0 /\ cutAt = 0
JNextG == UNCHANGED gvars
=============================================================================
