CONSTANTS
  RN = 11
  RCap = 0
  RBlocks = 2
  Configs <- RConfigs
INIT Init
NEXT Next
VIEW RView
INVARIANTS TypeOK OrderInv CoreIndInv
PROPERTIES RefinesCore
CHECK_DEADLOCK FALSE
