--------------------------- MODULE AnnotateChange ---------------------------
(* C13 - annotating an osmChange against element histories yields the exact  *)
(* old/new diff (annotate.Change of paulmach/osm).                           *)
(*                                                                           *)
(*  Model  : the loop structure of annotate/change.go as a step machine, one *)
(*           action per element, sections create, modify, delete, kinds      *)
(*           node, way, relation inside each section; findPrevious is the    *)
(*           (loc, max) scan over the history in *stored* order; checkErr is *)
(*           the not-found mapping.                                          *)
(*  Judge  : the listed property and nothing more, stated declaratively      *)
(*           (JudgeOK), plus the stricter "exactly what the Model computes"  *)
(*           (Expected) that is only used to report divergences.             *)
(*  Inputs : the case families replayed on the real code (Singles, Pairs,    *)
(*           Houses, Failing, Random) and a generating machine (build phase) *)
(*           that TLC explores exhaustively at design level.                 *)
EXTENDS Integers, Sequences, FiniteSets, TLC, Json, SequencesExt

Kinds    == <<"node", "way", "relation">>
Sections == <<"create", "modify", "delete">>
KindSet    == {"node", "way", "relation"}
UpdateSecs == {"modify", "delete"}

(* ------------------------------------------------------------------------ *)
(* Vocabulary.                                                              *)
(*   change element   [id, v, vis, m, ts]  vis = Visible flag on input,      *)
(*                                         m   = unique mark (neutral tag)   *)
(*   history entry    [v, vis, m, ts]                                        *)
(*        ts = abstract timestamp: 0 = the zero time.Time (untimed), n > 0  *)
(*        = n time units after a base instant.  The property pairs by       *)
(*        version number only: the Model copies ts through, the Judge never *)
(*        reads it (see TimeModes for the orderings that are enumerated)    *)
(*   history          [k, id, fail, vs]    fail = "no": the lookup succeeds; *)
(*        "other": the history exists (vs) but the lookup fails with an      *)
(*        error the datasource does not classify as not-found (I/O error,   *)
(*        timeout, ...); "notfound": the lookup fails with an error of the  *)
(*        datasource's own that its NotFound method classifies as not-found *)
(*        (= no history, like a (k, id) without entry)                      *)
(*   case             [ign, opt, idp, nile, ch, hist]                        *)
(*        ch[section][kind] = sequence of change elements                    *)
(*        hist              = sequence of histories; a (k, id) without entry *)
(*                            has no history at all ("missing entirely")     *)
(*        nile              = render sections without elements as nil        *)
(*        ign               = IgnoreMissingChildren(true) is passed          *)
(*        opt               = every other option setting annotate.Option     *)
(*                            offers (see OptSets); the Model - like the     *)
(*                            code - and the Judge never read it             *)
(*        idp               = name of the id symbol table the renderer uses  *)
(*                            (abstract id -> concrete id; see IdProfiles)   *)
(*   output element   [k, id, v, vis, m, ts]                                 *)
(*   action           [t, osm, old, new]   each of osm/old/new the sequence  *)
(*                                         of output elements in that part   *)
(*   observation      [err, ek, eid, nodiff, actions]                        *)
(* ------------------------------------------------------------------------ *)
NoCells  == [node |-> << >>, way |-> << >>, relation |-> << >>]
NoChange == [create |-> NoCells, modify |-> NoCells, delete |-> NoCells]

HasEntry(c, k, id) == \E i \in 1 .. Len(c.hist) : c.hist[i].k = k /\ c.hist[i].id = id
HistRec(c, k, id) == c.hist[CHOOSE i \in 1 .. Len(c.hist) : c.hist[i].k = k /\ c.hist[i].id = id]
\* a history of (k, id) exists (whether or not the lookup succeeds)
HasHist(c, k, id) == HasEntry(c, k, id) /\ HistRec(c, k, id).fail # "notfound"
\* ... but the lookup fails with an error that is not a not-found error
Fails(c, k, id)   == HasEntry(c, k, id) /\ HistRec(c, k, id).fail = "other"
\* the stored versions of (k, id) - also when the lookup fails; empty when there is no history
Stored(c, k, id)  == IF HasHist(c, k, id) THEN HistRec(c, k, id).vs ELSE << >>

Out(k, id, e, vis) == [k |-> k, id |-> id, v |-> e.v, vis |-> vis, m |-> e.m, ts |-> e.ts]
CreateAct(k, el)   == [t |-> "create", osm |-> <<Out(k, el.id, el, TRUE)>>, old |-> << >>, new |-> << >>]
UpdateAct(s, k, el, h) ==
  [t |-> s, osm |-> << >>, old |-> <<Out(k, el.id, h, h.vis)>>, new |-> <<Out(k, el.id, el, s = "modify")>>]

(* ======================================================================== *)
(* MODEL - transcription of annotate/change.go                              *)
(* ======================================================================== *)

\* osm.HistoryDatasource.{Node,Way,Relation}History + a failing datasource
DsHistory(c, k, id) ==
  IF ~HasHist(c, k, id) THEN [err |-> "notfound", vs |-> << >>]
  ELSE IF Fails(c, k, id) THEN [err |-> "other", vs |-> << >>]
  ELSE [err |-> "nil", vs |-> HistRec(c, k, id).vs]

\* the loop `for i, node := range nodes { if v := node.Version; v < n.Version && v > max {max = v; loc = i} }`
\* (loc 0 = "-1": nothing found, max starts at -1)
RECURSIVE ScanFrom(_, _, _, _, _)
ScanFrom(vs, ver, i, loc, max) ==
  IF i > Len(vs) THEN loc
  ELSE IF vs[i].v < ver /\ vs[i].v > max THEN ScanFrom(vs, ver, i + 1, i, vs[i].v)
  ELSE ScanFrom(vs, ver, i + 1, loc, max)

\* `for _, o := range opts { o(computeOpts) }; ignoreMissing := computeOpts.IgnoreMissingChildren`: the options are
\* applied in order, so the last IgnoreMissingChildren setting of the list counts (off if there is none); no other
\* option is consulted.  (c.ign is the same value stated directly; the Judge reads c.ign.)
IgnoreMissing(c) == LET q == c.opt.imc IN Len(q) > 0 /\ q[Len(q)]

\* findPrevious{Node,Way,Relation}: [old |-> << >> or <<entry>>, err]
FindPrevious(c, k, el) ==
  LET h == DsHistory(c, k, el.id) IN
  IF h.err # "nil" THEN [old |-> << >>, err |-> h.err]
  ELSE LET loc == ScanFrom(h.vs, el.v, 1, 0, -1) IN
       IF loc = 0
       THEN (IF IgnoreMissing(c) THEN [old |-> << >>, err |-> "nil"] ELSE [old |-> << >>, err |-> "NoVisibleChildError"])
       ELSE [old |-> <<h.vs[loc]>>, err |-> "nil"]

\* checkErr: what the caller returns for the error of findPrevious ("nil" = go on)
CheckErr(c, err) ==
  IF err = "nil" THEN "nil"
  ELSE IF err = "notfound" THEN (IF IgnoreMissing(c) THEN "nil" ELSE "NoVisibleChildError")
  ELSE err

\* positions of the three nested loops: <<section index, kind index, element index>>; <<4, 1, 1>> = past the end
Cell(c, s, k) == c.ch[Sections[s]][Kinds[k]]
RECURSIVE Settle(_, _, _, _)
Settle(c, s, k, i) ==                      \* first existing element at or after <<s, k, i>>
  IF s > 3 THEN <<4, 1, 1>>
  ELSE IF i <= Len(Cell(c, s, k)) THEN <<s, k, i>>
  ELSE IF k < 3 THEN Settle(c, s, k + 1, 1)
  ELSE Settle(c, s + 1, 1, 1)

VARIABLES phase,   \* "build" (generating machine), "run", "done"
          inp,     \* the case
          pos,     \* loop position
          acts,    \* actions appended so far
          res      \* the observation once done

vars == <<phase, inp, pos, acts, res>>
NoRes == [err |-> "running", ek |-> "", eid |-> 0, nodiff |-> FALSE, actions |-> << >>]

At(s, k) == phase = "run" /\ pos[1] < 4 /\ Sections[pos[1]] = s /\ Kinds[pos[2]] = k
Cur      == Cell(inp, pos[1], pos[2])[pos[3]]
Advance  == pos' = Settle(inp, pos[1], pos[2], pos[3] + 1)

\* `for _, n := range change.Create.Nodes { n.Visible = true; append create }` (same for ways, relations)
StepCreate(k) ==
  /\ At("create", k)
  /\ acts' = Append(acts, CreateAct(k, Cur))
  /\ Advance
  /\ UNCHANGED <<phase, inp, res>>

\* one iteration of a loop of addUpdate
StepUpdate(s, k) ==
  /\ At(s, k)
  /\ LET fp == FindPrevious(inp, k, Cur)
         e  == CheckErr(inp, fp.err) IN
     IF e # "nil"
     THEN \* return nil, e
          /\ res' = [err |-> e, ek |-> (IF e = "other" THEN "" ELSE k), eid |-> (IF e = "other" THEN 0 ELSE Cur.id),
                     nodiff |-> TRUE, actions |-> << >>]
          /\ phase' = "done"
          /\ UNCHANGED <<inp, pos, acts>>
     ELSE /\ acts' = Append(acts, IF fp.old = << >> THEN CreateAct(k, Cur) ELSE UpdateAct(s, k, Cur, fp.old[1]))
          /\ Advance
          /\ UNCHANGED <<phase, inp, res>>

\* `return &osm.Diff{Actions: actions}, nil`
Finish ==
  /\ phase = "run" /\ pos[1] = 4
  /\ res' = [err |-> "none", ek |-> "", eid |-> 0, nodiff |-> FALSE, actions |-> acts]
  /\ phase' = "done"
  /\ UNCHANGED <<inp, pos, acts>>

Run == \/ \E k \in KindSet : StepCreate(k)
       \/ \E s \in UpdateSecs, k \in KindSet : StepUpdate(s, k)
       \/ Finish

(* ======================================================================== *)
(* JUDGE - the listed property, over a case c and an observation g          *)
(* ======================================================================== *)

\* indices of stored versions below the element's own version, and those among them with the greatest version
Below(c, k, el)    == {i \in 1 .. Len(Stored(c, k, el.id)) : Stored(c, k, el.id)[i].v < el.v}
MaxBelow(c, k, el) == {i \in Below(c, k, el) : \A j \in Below(c, k, el) : Stored(c, k, el.id)[j].v <= Stored(c, k, el.id)[i].v}
\* "a missing history or missing earlier version"
Lacks(c, k, el)    == Below(c, k, el) = {}

\* all elements of the change in the order the property prescribes: create, modify, delete; node, way, relation within
CellSeq(c, s, k) == [i \in 1 .. Len(c.ch[s][k]) |-> [s |-> s, k |-> k, i |-> i, el |-> c.ch[s][k][i]]]
SecSeq(c, s)     == CellSeq(c, s, "node") \o CellSeq(c, s, "way") \o CellSeq(c, s, "relation")
Flat(c)          == SecSeq(c, "create") \o SecSeq(c, "modify") \o SecSeq(c, "delete")

\* number of elements before cell (s, k) in that order
SecIdx(s)  == CHOOSE i \in 1 .. 3 : Sections[i] = s
KindIdx(k) == CHOOSE i \in 1 .. 3 : Kinds[i] = k
SecLen(c, s) == Len(c.ch[s].node) + Len(c.ch[s].way) + Len(c.ch[s].relation)
Offset(c, s, k) ==
    (IF SecIdx(s) > 1 THEN SecLen(c, "create") ELSE 0) + (IF SecIdx(s) > 2 THEN SecLen(c, "modify") ELSE 0)
  + (IF KindIdx(k) > 1 THEN Len(c.ch[s].node) ELSE 0) + (IF KindIdx(k) > 2 THEN Len(c.ch[s].way) ELSE 0)

\* a modified/deleted element whose lookup fails with an error other than "not found"
UpdateEls(c)      == {f \in ToSet(Flat(c)) : f.s \in UpdateSecs}
NumEls(c)         == SecLen(c, "create") + SecLen(c, "modify") + SecLen(c, "delete")
TouchesFailure(c) == \E f \in UpdateEls(c) : Fails(c, f.k, f.el.id)

\* elements whose predecessor is missing
MissingEls(c) == {f \in UpdateEls(c) : Lacks(c, f.k, f.el)}
ErrorDue(c)   == ~c.ign /\ MissingEls(c) # {}

\* the documented typed errors of package annotate (errors.go) that fit the situation:
\* a history without an earlier version -> NoVisibleChildError; no history at all -> NoVisibleChildError
\* (what Change returns) or NoHistoryError (whose documentation describes exactly that situation) -
\* the property does not say which of the two.
TypedFor(c, k, el) == IF HasHist(c, k, el.id) THEN {"NoVisibleChildError"} ELSE {"NoVisibleChildError", "NoHistoryError"}

\* is action a the right action for flat element f ?
SameEl(o, k, id, e) == o.k = k /\ o.id = id /\ o.v = e.v /\ o.m = e.m
ActionOK(c, f, a) ==
  IF f.s = "create" \/ Lacks(c, f.k, f.el)
  THEN \* created elements - and, when missing children are ignored, elements without predecessor -
       \* become create actions marked visible
       /\ a.t = "create" /\ a.old = << >> /\ a.new = << >>
       /\ Len(a.osm) = 1 /\ SameEl(a.osm[1], f.k, f.el.id, f.el) /\ a.osm[1].vis = TRUE
  ELSE \* old = the history version with the greatest version number below; new visible iff modify.
       \* (nothing is demanded of the visible flag of the old state)
       /\ a.t = f.s /\ a.osm = << >>
       /\ Len(a.old) = 1 /\ \E i \in MaxBelow(c, f.k, f.el) : SameEl(a.old[1], f.k, f.el.id, Stored(c, f.k, f.el.id)[i])
       /\ Len(a.new) = 1 /\ SameEl(a.new[1], f.k, f.el.id, f.el) /\ a.new[1].vis = (f.s = "modify")

\* exactly one action per element; the actions of cell (s, k) occupy the cell's slots.  The property fixes
\* the order of sections and of kinds, not the order among the elements of one cell, hence "some matching".
CellOK(c, s, k, actions) ==
  LET n   == Len(c.ch[s][k])
      off == Offset(c, s, k) IN
  \E p \in SetToSeqs(1 .. n) : \A i \in 1 .. n : ActionOK(c, CellSeq(c, s, k)[i], actions[off + p[i]])

DiffOK(c, actions) ==
  /\ Len(actions) = NumEls(c)
  /\ \A s \in {"create", "modify", "delete"}, k \in KindSet : CellOK(c, s, k, actions)

\* "... is reported as the documented typed error, or turns the action into a create when missing children are
\* ignored": of all option settings only IgnoreMissingChildren (c.ign) may change the outcome.  JudgeOK and Expected
\* read c.ign and never c.opt (IgnoreInconsistency, Threshold, ChildFilter, an explicit IgnoreMissingChildren(false)),
\* nor c.idp (which concrete ids stand for the abstract ones): the same observation is demanded for every option set
\* and every id table.
\* Datasource failures other than not-found: the property does not say which error Change has to return then, so any
\* error is accepted.  But the property does say what a diff looks like: every modified or deleted element is paired
\* with the stored version with the greatest number below its own, and only a *missing* history / earlier version may
\* turn it into a create.  So if Change returns a diff although a lookup failed, the diff must still be the exact one
\* with respect to the histories that exist: an element whose history has an earlier version may not come back as a
\* create (nor may a due typed error be dropped) just because its lookup failed.
JudgeOK(c, g) ==
  IF TouchesFailure(c) THEN (g.err = "none" => (~ErrorDue(c) /\ DiffOK(c, g.actions)))
  ELSE IF ErrorDue(c)
  THEN \* reported as the documented typed error, naming an element that lacks its predecessor (which one
       \* when there are several is not stated)
       \E f \in MissingEls(c) : g.err \in TypedFor(c, f.k, f.el) /\ g.ek = f.k /\ g.eid = f.el.id
  ELSE g.err = "none" /\ DiffOK(c, g.actions)

Why(c, g) ==
  IF TouchesFailure(c) /\ ~ErrorDue(c)
  THEN <<"a lookup failed; the diff returned instead of an error is not the exact diff: wrong actions in cells",
         {<<s, k>> \in {"create", "modify", "delete"} \X KindSet : Len(g.actions) # NumEls(c) \/ ~CellOK(c, s, k, g.actions)}>>
  ELSE IF ErrorDue(c) THEN <<"expected a typed error for one of", {<<f.k, f.el.id>> : f \in MissingEls(c)}, "got", g.err, g.ek, g.eid>>
  ELSE IF g.err # "none" THEN <<"no error expected, got", g.err, g.ek, g.eid>>
  ELSE IF Len(g.actions) # NumEls(c) THEN <<"expected", NumEls(c), "actions, got", Len(g.actions)>>
  ELSE <<"wrong actions in cells", {<<s, k>> \in {"create", "modify", "delete"} \X KindSet : ~CellOK(c, s, k, g.actions)}>>

(* ------------------------------------------------------------------------ *)
(* Exactly what the Model computes, stated without the machine: used for    *)
(* the design-level check  machine = Expected  and for divergence reports.  *)
(* ------------------------------------------------------------------------ *)
Stops(c, f) == f.s \in UpdateSecs /\ (Fails(c, f.k, f.el.id) \/ (~c.ign /\ Lacks(c, f.k, f.el)))
ExpAction(c, f) ==
  IF f.s = "create" \/ Lacks(c, f.k, f.el) THEN CreateAct(f.k, f.el)
  ELSE UpdateAct(f.s, f.k, f.el, Stored(c, f.k, f.el.id)[CHOOSE i \in MaxBelow(c, f.k, f.el) : TRUE])
Expected(c) ==
  LET F == Flat(c)
      S == {j \in 1 .. Len(F) : Stops(c, F[j])} IN
  IF S = {} THEN [err |-> "none", ek |-> "", eid |-> 0, nodiff |-> FALSE, actions |-> [j \in 1 .. Len(F) |-> ExpAction(c, F[j])]]
  ELSE LET f == F[CHOOSE j \in S : \A j2 \in S : j <= j2] IN
       IF Fails(c, f.k, f.el.id)
       THEN [err |-> "other", ek |-> "", eid |-> 0, nodiff |-> TRUE, actions |-> << >>]
       ELSE [err |-> "NoVisibleChildError", ek |-> f.k, eid |-> f.el.id, nodiff |-> TRUE, actions |-> << >>]

(* ======================================================================== *)
(* INPUT SPACE                                                              *)
(* ======================================================================== *)
CONSTANTS HMax,      \* Singles: stored version sets are the subsets of 1 .. HMax, in every order
          SingleKinds, \* Singles: element kinds (a subset of KindSet; lets generation be spread over processes)
          BothVis,   \* Singles: both input Visible flags (otherwise the adversarial one)
          PairVers,  \* Pairs: versions used
          NRandom,   \* number of randomly drawn cases of the full product space
          BuildMax,  \* generating machine: at most this many elements per change
          BuildIds,  \* generating machine: element ids used
          WithFamilies, \* the small static families (Houses, Failing, Faulty, Optioned, IdTables) are part of StaticCases;
                     \* FALSE in configs that do not need them (TLC evaluates every constant definition at startup)
          StaticInit \* model checking starts from the static families and NRandom random draws (TRUE) or only from
                     \* the generating machine (FALSE); lets the two halves run as separate TLC processes

\* every setting of the options of package annotate besides IgnoreMissingChildren(true) (= c.ign):
\*   inc  IgnoreInconsistency absent / (false) / (true);  thr  Threshold(d) absent / present;
\*   cf   ChildFilter absent / accept-all / accept-none;
\*   ignx pattern 0 .. 3 of the SEQUENCE of IgnoreMissingChildren settings in the option list (ImcSeq): options are
\*        applied in order, the effective value is the last setting (off when there is none); c.ign is that value
OptSets == [inc : {"absent", "off", "on"}, thr : BOOLEAN, cf : {"absent", "all", "none"}, ignx : 0 .. 3]
NoOpt   == [inc |-> "absent", thr |-> FALSE, cf |-> "absent", ignx |-> 0]
\* the IgnoreMissingChildren(b) calls of the option list, in order, for effective value ign
ImcSeq(ign, pat) ==
  IF ign THEN (CASE pat = 0 -> <<TRUE>> [] pat = 1 -> <<FALSE, TRUE>> [] pat = 2 -> <<TRUE, FALSE, TRUE>> [] pat = 3 -> <<TRUE, TRUE>>)
  ELSE (CASE pat = 0 -> << >> [] pat = 1 -> <<FALSE>> [] pat = 2 -> <<TRUE, FALSE>> [] pat = 3 -> <<FALSE, TRUE, FALSE>>)
OptSeq  == SetToSeq(OptSets)
OptAt(n) == OptSeq[(n % Len(OptSeq)) + 1]

\* id symbol tables of the renderer (abstract 1, 2, 3 -> concrete):
\*   base  base+1, base+2, base+3 (base chosen by the seed: 0, 4e9, 2^40-1002)
\*   zero  0, 5, 9      zero2  5, 0, 9      zero3  5, 9, 0      big  2^40-1, 0, 2^39
\*   neg   -1, 0, -1000000   (a negative id cannot be named by an osm.FeatureID, so this table is only combined
\*                            with ign = TRUE, where no typed error is due)
IdProfiles == <<"base", "zero", "zero2", "zero3", "big">>
ProfAt(n)  == IdProfiles[(n % Len(IdProfiles)) + 1]

\* the input flag that the code has to overwrite
AdvVis(s) == s = "delete"

MkHist(k, id, vseq, base) ==
  [k |-> k, id |-> id, fail |-> "no",
   vs |-> [i \in 1 .. Len(vseq) |-> [v |-> vseq[i], vis |-> ((vseq[i] + i) % 2 = 0), m |-> base + i]]]
\* the history exists but its lookup fails / the datasource answers with its own not-found error
FailHist(k, id, vseq, base) == [MkHist(k, id, vseq, base) EXCEPT !.fail = "other"]
NotFoundHist(k, id)         == [k |-> k, id |-> id, fail |-> "notfound", vs |-> << >>]
CellMark(s, k)  == 10 * (3 * (SecIdx(s) - 1) + KindIdx(k))

HistSeqs(V) == SetToAllKPermutations(V)        \* every subset of V stored in every order (326 for V = 1 .. 5)

\* --- timestamps ------------------------------------------------------------------------------------------------
\* Every family below is written without timestamps; Timed(c, tm) stamps all change elements and history entries of a
\* case according to a time mode (side "el" = change element, "hist" = history entry; v = version, p = position):
\*   zero      nothing is timed                      mono      later versions are later (10 * v)
\*   equal     everything at the same instant        inverted  later versions are EARLIER (100 - 10 * v): the version
\*   histzero  histories untimed, elements mono                 below carries a strictly later timestamp
\*   elzero    elements untimed, histories inverted  mixed     no relation between version and time
TimeModes == <<"zero", "mono", "inverted", "equal", "histzero", "elzero", "mixed">>
TimeOf(tm, side, v, p) ==
  CASE tm = "zero"     -> 0
    [] tm = "mono"     -> 10 * v
    [] tm = "inverted" -> 100 - 10 * v
    [] tm = "equal"    -> 50
    [] tm = "histzero" -> (IF side = "hist" THEN 0 ELSE 10 * v)
    [] tm = "elzero"   -> (IF side = "el" THEN 0 ELSE 100 - 10 * v)
    [] tm = "mixed"    -> 10 * (((7 * v + 3 * p) % 5) + 1)
TimedCell(sq, tm) == [j \in 1 .. Len(sq) |-> [id |-> sq[j].id, v |-> sq[j].v, vis |-> sq[j].vis, m |-> sq[j].m,
                                               ts |-> TimeOf(tm, "el", sq[j].v, j)]]
TimedSec(sec, tm) == [node |-> TimedCell(sec.node, tm), way |-> TimedCell(sec.way, tm), relation |-> TimedCell(sec.relation, tm)]
TimedHist(h, tm)  == [k |-> h.k, id |-> h.id, fail |-> h.fail,
                      vs |-> [j \in 1 .. Len(h.vs) |-> [v |-> h.vs[j].v, vis |-> h.vs[j].vis, m |-> h.vs[j].m,
                                                         ts |-> TimeOf(tm, "hist", h.vs[j].v, j)]]]
TimedWorld(w, tm) == [i \in 1 .. Len(w) |-> TimedHist(w[i], tm)]
Timed(c, tm) ==
  [ign |-> c.ign, nile |-> c.nile, idp |-> c.idp, tm |-> tm, hist |-> TimedWorld(c.hist, tm),
   opt |-> [inc |-> c.opt.inc, thr |-> c.opt.thr, cf |-> c.opt.cf, ignx |-> c.opt.ignx, imc |-> ImcSeq(c.ign, c.opt.ignx)],
   ch |-> [create |-> TimedSec(c.ch.create, tm), modify |-> TimedSec(c.ch.modify, tm), delete |-> TimedSec(c.ch.delete, tm)]]
\* the time mode of a static case: rotated over the modes by a key of the case (number of histories, of elements, versions)
RECURSIVE SumV(_)
SumV(sq) == IF sq = << >> THEN 0 ELSE Head(sq).el.v + SumV(Tail(sq))
TimeKey(c) == LET F == Flat(c) IN Len(c.hist) + 3 * Len(F) + SumV(F) + (IF c.ign THEN 1 ELSE 0)
ModeAt(n)  == TimeModes[(n % Len(TimeModes)) + 1]

\* --- Singles: one element, every history -------------------------------------------------------------------
OneEl(s, k, el) == [NoChange EXCEPT ![s][k] = <<el>>]
Singles ==
  LET VisOf(s)   == IF BothVis THEN BOOLEAN ELSE {AdvVis(s)}
      HistsOf(s) == IF s = "create" THEN {<< >>, <<2, 1>>, <<1, 2, 3, 4>>} ELSE HistSeqs(1 .. HMax) IN
  UNION {
    {[ign |-> ign, nile |-> (v % 2 = 0), opt |-> OptAt(7 * v + 5 * Len(h) + KindIdx(k)), idp |-> ProfAt(v + Len(h)),
      hist |-> <<MkHist(k, 1, h, 100)>>,
      ch |-> OneEl(s, k, [id |-> 1, v |-> v, vis |-> vi, m |-> CellMark(s, k) + 1])] :
         h \in HistsOf(s), vi \in VisOf(s), ign \in BOOLEAN}
    \cup
    {[ign |-> ign, nile |-> (v % 2 = 0), opt |-> OptAt(v + KindIdx(k)), idp |-> ProfAt(v), hist |-> << >>,      \* no history at all
      ch |-> OneEl(s, k, [id |-> 1, v |-> v, vis |-> vi, m |-> CellMark(s, k) + 1])] : vi \in VisOf(s), ign \in BOOLEAN}
    \cup
    {[ign |-> ign, nile |-> (v % 2 = 0), opt |-> OptAt(3 * v + KindIdx(k)), idp |-> ProfAt(v + 1),
      hist |-> <<MkHist(k, 2, <<1, 2, 3>>, 100)>>,   \* only another element's history
      ch |-> OneEl(s, k, [id |-> 1, v |-> v, vis |-> vi, m |-> CellMark(s, k) + 1])] : vi \in VisOf(s), ign \in BOOLEAN}
    : s \in {"create", "modify", "delete"}, k \in SingleKinds, v \in 1 .. 4}

\* --- a fixed world of histories for the multi-element families ---------------------------------------------
\* per kind: id 1 unsorted with a gap and a later version, id 2 no history, id 3 unsorted with a far later version
WorldHist ==
  <<MkHist("node", 1, <<4, 2, 3>>, 100), MkHist("node", 3, <<1, 5, 2>>, 200),
    MkHist("way", 1, <<4, 2, 3>>, 300), MkHist("way", 3, <<1, 5, 2>>, 400),
    MkHist("relation", 1, <<4, 2, 3>>, 500), MkHist("relation", 3, <<1, 5, 2>>, 600)>>
\* a second world: a failing datasource for node 1, an empty history, histories in other orders
World2Hist ==
  <<FailHist("node", 1, <<3, 1, 2>>, 100), MkHist("node", 2, <<2>>, 200), MkHist("way", 1, << >>, 300), MkHist("way", 2, <<3, 1>>, 400),
    MkHist("relation", 2, <<1, 2, 3, 4, 5>>, 500), MkHist("relation", 3, <<5, 4, 3, 2, 1>>, 600)>>

CellList == <<<<"create", "node">>, <<"create", "way">>, <<"create", "relation">>,
              <<"modify", "node">>, <<"modify", "way">>, <<"modify", "relation">>,
              <<"delete", "node">>, <<"delete", "way">>, <<"delete", "relation">>>>

AddEl(ch, s, k, id, v) ==
  [ch EXCEPT ![s][k] = Append(@, [id |-> id, v |-> v, vis |-> AdvVis(s), m |-> CellMark(s, k) + Len(@) + 1, ts |-> 0])]

\* --- Pairs: two elements in every pair of cells (also the same cell), every combination of shapes ------------
Pairs ==
  {[ign |-> ign, nile |-> FALSE, opt |-> NoOpt, idp |-> "base", hist |-> WorldHist,
    ch |-> AddEl(AddEl(NoChange, CellList[ab[1]][1], CellList[ab[1]][2], e1[1], e1[2]),
                 CellList[ab[2]][1], CellList[ab[2]][2], e2[1], e2[2])] :
      ab \in {x \in (1 .. 9) \X (1 .. 9) : x[1] <= x[2]},
      e1 \in (1 .. 3) \X PairVers, e2 \in (1 .. 3) \X PairVers, ign \in BOOLEAN}

\* --- Houses: every cell holds n elements ------------------------------------------------------------------
RECURSIVE Fill(_, _, _, _)
Fill(ch, j, n, pick) ==       \* pick[j] = <<id, v>> pattern for cell j; second element uses the next id
  IF j > 9 THEN ch
  ELSE LET s == CellList[j][1] k == CellList[j][2]
           one == AddEl(ch, s, k, pick[j][1], pick[j][2])
           two == IF n = 2 THEN AddEl(one, s, k, (pick[j][1] % 3) + 1, pick[j][2] + 1) ELSE one IN
       Fill(two, j + 1, n, pick)
Picks == { [j \in 1 .. 9 |-> <<1, 3>>], [j \in 1 .. 9 |-> <<3, 2>>], [j \in 1 .. 9 |-> <<3, 3>>],
           [j \in 1 .. 9 |-> <<1 + 2 * (j % 2), 3>>], [j \in 1 .. 9 |-> <<1, 1 + (j % 4)>>],
           [j \in 1 .. 9 |-> <<1 + (j % 3), 2 + (j % 2)>>], [j \in 1 .. 9 |-> <<2, 2>>] }
Houses == IF ~WithFamilies THEN {} ELSE
  {[ign |-> ign, nile |-> FALSE, opt |-> o, idp |-> ip, hist |-> WorldHist, ch |-> Fill(NoChange, 1, n, p)] :
      n \in {1, 2}, p \in Picks, ign \in BOOLEAN, o \in {NoOpt, [NoOpt EXCEPT !.inc = "on", !.thr = TRUE, !.cf = "none"]},
      ip \in {"base", "zero", "zero3"}}

\* --- Failing: datasource errors other than not-found, alone and next to missing / fine elements ---------------
Failing == IF ~WithFamilies THEN {} ELSE
  {[ign |-> ign, nile |-> FALSE, opt |-> NoOpt, idp |-> "base", hist |-> World2Hist,
    ch |-> AddEl(AddEl(NoChange, CellList[a][1], CellList[a][2], e1[1], e1[2]), CellList[b][1], CellList[b][2], e2[1], e2[2])] :
      a \in {1, 4, 5, 7}, b \in {4, 6, 7, 9}, e1 \in {<<1, 2>>, <<2, 3>>}, e2 \in {<<1, 3>>, <<3, 2>>, <<2, 1>>}, ign \in BOOLEAN}

\* --- Faulty: a fault-injecting datasource.  Per kind: id 1 exists (<<3, 1, 2>>) but its lookup fails with a
\* non-not-found error, id 2 is answered with the datasource's own not-found error, id 3 is fine (<<1, 5, 2>>).
\* One element, and two elements in every pair of update cells (also the same cell), with and without ignore-missing.
\* Shapes <<id, v>>: <<1, 3>> failing lookup, predecessor exists; <<1, 1>> failing lookup, no earlier version;
\* <<2, 3>> not-found; <<3, 2>> fine.
FaultyHist ==
  <<FailHist("node", 1, <<3, 1, 2>>, 100), NotFoundHist("node", 2), MkHist("node", 3, <<1, 5, 2>>, 200),
    FailHist("way", 1, <<3, 1, 2>>, 300), NotFoundHist("way", 2), MkHist("way", 3, <<1, 5, 2>>, 400),
    FailHist("relation", 1, <<3, 1, 2>>, 500), NotFoundHist("relation", 2), MkHist("relation", 3, <<1, 5, 2>>, 600)>>
FaultyShapes == {<<1, 3>>, <<1, 1>>, <<2, 3>>, <<3, 2>>}
Faulty == IF ~WithFamilies THEN {} ELSE
  {[ign |-> ign, nile |-> FALSE, opt |-> NoOpt, idp |-> "base", hist |-> FaultyHist,
    ch |-> AddEl(NoChange, s, k, e[1], e[2])] : s \in UpdateSecs, k \in KindSet, e \in FaultyShapes, ign \in BOOLEAN}
  \cup
  {[ign |-> ign, nile |-> FALSE, opt |-> NoOpt, idp |-> "base", hist |-> FaultyHist,
    ch |-> AddEl(AddEl(NoChange, CellList[ab[1]][1], CellList[ab[1]][2], e1[1], e1[2]), CellList[ab[2]][1], CellList[ab[2]][2], e2[1], e2[2])] :
      ab \in {x \in (4 .. 9) \X (4 .. 9) : x[1] <= x[2]}, e1 \in FaultyShapes, e2 \in FaultyShapes, ign \in BOOLEAN}

\* --- Optioned: every option set x one modified/deleted element that lacks / has its predecessor ----------------
\* (<<1, 2>> history without earlier version, <<2, 3>> no history at all, <<1, 3>> predecessor present)
Optioned == IF ~WithFamilies THEN {} ELSE
  {[ign |-> ign, nile |-> FALSE, opt |-> o, idp |-> "base", hist |-> WorldHist,
    ch |-> AddEl(NoChange, s, k, e[1], e[2])] :
      o \in OptSets, s \in UpdateSecs, k \in KindSet, e \in {<<1, 2>>, <<2, 3>>, <<1, 3>>}, ign \in BOOLEAN}

\* --- IdTables: concrete id 0 / a large id / negative ids for each kind, as first and as later element -----------
\* two modified/deleted elements in every pair of update cells (also the same cell) over the id tables; version 3 has
\* a predecessor for ids 1 and 3 and none for id 2 in WorldHist
IdTables == IF ~WithFamilies THEN {} ELSE
  {[ign |-> pi[2], nile |-> FALSE, opt |-> NoOpt, idp |-> pi[1], hist |-> WorldHist,
    ch |-> AddEl(AddEl(NoChange, CellList[ab[1]][1], CellList[ab[1]][2], i1, 3), CellList[ab[2]][1], CellList[ab[2]][2], i2, 3)] :
      ab \in {x \in (4 .. 9) \X (4 .. 9) : x[1] <= x[2]}, i1 \in 1 .. 3, i2 \in 1 .. 3,
      pi \in ({"zero", "zero2", "zero3", "big"} \X BOOLEAN) \cup {<<"neg", TRUE>>}}

\* --- Random: draws from the full product space of the property's quantifier ---------------------------------
\* (<= 2 elements per cell, ids 1 .. 2, versions 1 .. 4, per (kind, id) no history or any stored order of any
\* subset of 1 .. 5, both options).  TLC -seed makes the draws reproducible.  Every RandomElement call sits in
\* a tuple that is bound by a quantifier, so each draw is evaluated exactly once (TLC evaluates function
\* constructors and operator arguments lazily, possibly more than once); the operator parameter keeps TLC
\* from caching a draw as a constant.
HS5 == HistSeqs(1 .. 5)
DrawCell(n)  == <<RandomElement(0 .. 2), RandomElement(1 .. 2), RandomElement(1 .. 4), RandomElement(BOOLEAN),
                  RandomElement(1 .. 2), RandomElement(1 .. 4), RandomElement(BOOLEAN)>>
DrawHist(n)  == <<RandomElement(1 .. 4), RandomElement(HS5), RandomElement(1 .. 12)>>
                \* <<1, _, _>> = no history at all; <<_, _, 1>> the lookup fails; <<_, _, 2>> own not-found error
\* bias = TRUE bends a draw towards changes that succeed without the ignore option: every history exists and
\* stores version 1 (in front or at the end), no element has version 1
CellOf(d, s, k, bias) ==
  LET ver(v) == IF bias /\ v = 1 THEN 2 ELSE v IN
  SubSeq(<<[id |-> d[2], v |-> ver(d[3]), vis |-> d[4], m |-> CellMark(s, k) + 1],
           [id |-> d[5], v |-> ver(d[6]), vis |-> d[7], m |-> CellMark(s, k) + 2]>>, 1, d[1])
HistOf(d, k, id, base, bias) ==
  IF bias THEN <<MkHist(k, id, IF \E i \in 1 .. Len(d[2]) : d[2][i] = 1 THEN d[2]
                               ELSE IF Len(d[2]) % 2 = 0 THEN <<1>> \o d[2] ELSE d[2] \o <<1>>, base)>>
  ELSE IF d[1] = 1 THEN << >>
  ELSE IF d[3] = 1 THEN <<FailHist(k, id, d[2], base)>>
  ELSE IF d[3] = 2 THEN <<NotFoundHist(k, id)>>
  ELSE <<MkHist(k, id, d[2], base)>>
RandCase(n) ==
  CHOOSE c \in
    {Timed([ign |-> o[1], nile |-> o[2], opt |-> o[4], idp |-> (IF o[5] = "neg" /\ ~o[1] THEN "base" ELSE o[5]),
      hist |-> HistOf(h[1], "node", 1, 100, o[3]) \o HistOf(h[2], "node", 2, 200, o[3]) \o HistOf(h[3], "way", 1, 300, o[3]) \o
               HistOf(h[4], "way", 2, 400, o[3]) \o HistOf(h[5], "relation", 1, 500, o[3]) \o HistOf(h[6], "relation", 2, 600, o[3]),
      ch |-> [create |-> [node |-> CellOf(d[1], "create", "node", o[3]), way |-> CellOf(d[2], "create", "way", o[3]),
                          relation |-> CellOf(d[3], "create", "relation", o[3])],
              modify |-> [node |-> CellOf(d[4], "modify", "node", o[3]), way |-> CellOf(d[5], "modify", "way", o[3]),
                          relation |-> CellOf(d[6], "modify", "relation", o[3])],
              delete |-> [node |-> CellOf(d[7], "delete", "node", o[3]), way |-> CellOf(d[8], "delete", "way", o[3]),
                          relation |-> CellOf(d[9], "delete", "relation", o[3])]]], o[6]) :
        o \in {<<RandomElement(BOOLEAN), RandomElement(BOOLEAN), RandomElement(1 .. 3) = 1, RandomElement(OptSets),
                 RandomElement({"base", "zero", "zero2", "zero3", "big", "neg"}),
                 RandomElement({"zero", "mono", "inverted", "equal", "histzero", "elzero", "mixed"})>>},
        d \in {<<DrawCell(n), DrawCell(n), DrawCell(n), DrawCell(n), DrawCell(n), DrawCell(n), DrawCell(n), DrawCell(n), DrawCell(n)>>},
        h \in {<<DrawHist(n), DrawHist(n), DrawHist(n), DrawHist(n), DrawHist(n), DrawHist(n)>>}} : TRUE
RandomSeq == [n \in 1 .. NRandom |-> RandCase(n)]

\* --- Timestamps: every time mode x one modified/deleted element with a predecessor (and one without) ------------
\* WorldHist: <<1, 3>> -> version 2 of <<4, 2, 3>>, <<1, 4>> -> version 3, <<3, 3>> -> version 2 of <<1, 5, 2>>,
\* <<1, 2>> no earlier version
Timestamps == IF ~WithFamilies THEN {} ELSE
  {Timed([ign |-> ign, nile |-> FALSE, opt |-> NoOpt, idp |-> "base", hist |-> WorldHist,
          ch |-> AddEl(NoChange, s, k, e[1], e[2])], TimeModes[tm]) :
      tm \in 1 .. Len(TimeModes), s \in UpdateSecs, k \in KindSet, e \in {<<1, 3>>, <<1, 4>>, <<3, 3>>, <<1, 2>>}, ign \in BOOLEAN}

RawStatic   == Singles \cup Pairs \cup Houses \cup Failing \cup Faulty \cup Optioned \cup IdTables
StaticCases == {Timed(c, ModeAt(TimeKey(c))) : c \in RawStatic} \cup Timestamps

(* ======================================================================== *)
(* GENERATING MACHINE + SPECIFICATION                                       *)
(* ======================================================================== *)
BuildWorlds == {WorldHist, World2Hist, FaultyHist}
LastCell(ch) == LET S == {j \in 1 .. 9 : Len(ch[CellList[j][1]][CellList[j][2]]) > 0} IN
                IF S = {} THEN 1 ELSE CHOOSE j \in S : \A j2 \in S : j2 <= j
Size(ch) == NumEls([ch |-> ch])

Start(c) == /\ phase = "run" /\ inp = c /\ pos = Settle(c, 1, 1, 1) /\ acts = << >> /\ res = NoRes

\* every static case and NRandom random cases start in phase "run"; the generating machine starts from the empty change in both worlds
Init ==
  \/ StaticInit /\ \E c \in StaticCases : Start(c)
  \/ StaticInit /\ \E c \in {RandCase(n) : n \in 1 .. NRandom} : Start(c)
  \/ /\ BuildMax > 0 /\ phase = "build"
     /\ inp \in {Timed([ign |-> ign, nile |-> FALSE, opt |-> NoOpt, idp |-> "base", hist |-> w, ch |-> NoChange], tm) :
                    ign \in BOOLEAN, w \in BuildWorlds, tm \in {"inverted"}}
     /\ pos = <<4, 1, 1>> /\ acts = << >> /\ res = NoRes

\* add one element, cells in non-decreasing order so that every change is built exactly once
BuildAdd ==
  /\ phase = "build" /\ Size(inp.ch) < BuildMax
  /\ \E j \in LastCell(inp.ch) .. 9, id \in BuildIds, v \in {2, 3} :
        /\ Len(inp.ch[CellList[j][1]][CellList[j][2]]) < 2
        /\ inp' = [inp EXCEPT !.ch = AddEl(@, CellList[j][1], CellList[j][2], id, v)]
  /\ UNCHANGED <<phase, pos, acts, res>>
BuildDone ==
  /\ phase = "build"
  /\ phase' = "run" /\ pos' = Settle(inp, 1, 1, 1)
  /\ UNCHANGED <<inp, acts, res>>

Next == BuildAdd \/ BuildDone \/ Run
Spec == Init /\ [][Next]_vars

(* design-level theorems checked by TLC within the constants *)
ModelIsExpected == phase = "done" => res = Expected(inp)            \* the machine computes the declarative diff
ModelMeetsJudge == phase = "done" => JudgeOK(inp, res)              \* ... which satisfies the property
\* while running, the actions so far are a prefix of the expected actions of a run that does not fail earlier
PrefixInv == phase = "run" => LET F == Flat(inp) IN
                              /\ Len(acts) <= Len(F)
                              /\ \A j \in 1 .. Len(acts) : acts[j] = ExpAction(inp, F[j])
\* the scan finds the greatest version below wherever it is stored (checked on the element under the cursor)
ScanInv == (phase = "run" /\ pos[1] \in {2, 3}) =>
             LET k == Kinds[pos[2]] vs == Stored(inp, k, Cur.id) loc == ScanFrom(vs, Cur.v, 1, 0, -1) IN
             IF Lacks(inp, k, Cur) THEN loc = 0 ELSE loc \in MaxBelow(inp, k, Cur)
Terminated == phase = "done"
=============================================================================
