CONSTANT MaxCalls = 0
CONSTANT TokenSeqs = {}
INIT JInit
NEXT JNext
CHECK_DEADLOCK FALSE
