\* 3 ids: one version with <= 1 member of any type, or two versions with <= 1 relation member each; undisturbed iteration
CONSTANTS
  N = 3
  MaxMem = 1
  MaxReq = 2
  Family = "mixed1"
  FlagFamily = "plain"
  WithBad = FALSE
  CanonicalReqs = TRUE
  VersionSets <- MCVersions
  ReqLists <- MCReqs
  BadSets <- MCBad
  FlagSets <- MCFlags
SPECIFICATION ReducedSpec
INVARIANTS ProjectionLemma TypeOK EmittedOnce OnlyWithHistory ChildrenFirst AllRequestedEmitted StopEndsIteration EmitsPrefixOfRunOut RanToEndEmitsRunOut CompletedAtEnd VisitedIsEmittedOrSending
CHECK_DEADLOCK FALSE
