----------------------- MODULE PbfFormatFilterJudge -----------------------
(* C08 Judge on recorded lines [case |-> [file, skip, inst, accept, procs], runs |-> <<run, ...>>]:           *)
(* every run returned exactly Filtered(file, skip, inst, accept) (nil and empty are the same: << >>), no       *)
(* returned object was modified after it was returned, and the filter functions were evaluated on the elements *)
(* themselves (complete, of non-skipped types).                                                                *)
EXTENDS PbfFormat, IOUtils, Json
Lines == ndJsonDeserialize(IOEnv.REC)

\* cases with a stateful filter kind are judged on the recorded verdicts, the others on the predicate of the case
RunJudged(c, run) == IF IsStateful(c) THEN StatefulRunOK(c, run) ELSE FilteredRunOK(c, run)
LineOK(ln) == /\ Len(ln.runs) >= 1
              /\ \A k \in 1 .. Len(ln.runs) : RunJudged(ln.case, ln.runs[k])
BadRun(ln) == IF Len(ln.runs) = 0 THEN <<"no run recorded">>
              ELSE LET k == CHOOSE k \in 1 .. Len(ln.runs) : ~RunJudged(ln.case, ln.runs[k]) IN
                   IF IsStateful(ln.case) THEN StatefulRunWhy(ln.case, ln.runs[k]) ELSE FilteredRunWhy(ln.case, ln.runs[k])

ASSUME \A i \in 1 .. Len(Lines) :
          LineOK(Lines[i]) \/ PrintT(<<"BAD", ToJson([i |-> i, why |-> BadRun(Lines[i]), kf |-> {}])>>)
ASSUME PrintT(<<"JUDGED", Len(Lines)>>)
VARIABLE v
JInit == v = 0
JNext == UNCHANGED v
=============================================================================
