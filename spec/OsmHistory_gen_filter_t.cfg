CONSTANTS
  NK = 2
  MaxV <- V22
  MaxP = 2
  MaxT = 3
  MaxDt = 1
  CsSet = {1}
  ParentCsFree = TRUE
  RefLists <- RefsPre
  SameTimeParents = TRUE
  RefsMustExist = TRUE
  GenOpts <- OptsFilter
  SampleMod = 1
INIT HInit
NEXT HNext
INVARIANTS HistoryOK GenInv
CHECK_DEADLOCK FALSE
