---------------------------- MODULE AnnotateJudge ----------------------------
(* Judge for C11 and C12 on values recorded from the real annotate.Ways /      *)
(* annotate.Relations and ApplyUpdatesUpTo (harness/cmd/c11).  Every line is   *)
(*   [case |-> [h, o, kt, lay], got |-> [runs |-> <<[err, par]>>, app]]        *)
(* MODE = "c11": the C11 judges of Annotate.tla on the first run + its app.    *)
(* MODE = "c12": Deterministic over the R runs, Sorted on each.                *)
(* A line on which every Judge holds but which differs from the Model's result *)
(* (Canon / ApplyUpTo) is reported with why = <<"DIVERGENCE">>: never a        *)
(* violation (e.g. inside the +-threshold window of the timestamp regime the   *)
(* property is silent and the result is only bound to the transcription).      *)
EXTENDS Annotate, IOUtils, Json

Lines == ndJsonDeserialize(IOEnv.REC)
Mode == IOEnv.MODE

\* kt of the Judges = kind descriptors [t, z] built from the case's member types and origin versions
CaseOfC(x) == [h |-> x.h, o |-> x.o, kt |-> [k \in 1 .. Len(x.kt) |-> [t |-> x.kt[k], z |-> x.zv[k]]]]
GotOfG(y) == [err |-> y.runs[1].err, par |-> y.runs[1].par, app |-> y.app]
CaseOf(ln) == CaseOfC(ln.case)
GotOf(ln) == GotOfG(ln.got)

\* the first run with every update list put into THE order and the applied states
\* recomputed from it by the Model's ApplyUpdatesUpTo
ResortedGot(g) ==
  [err |-> g.err, par |-> Resorted(g.par),
   app |-> [i \in 1 .. Len(g.par) |-> AppOf(g.par[i].refs, SortU(g.par[i].upd), Len(g.app[i]) - 1)]]

(* ---- C11 ---- *)
C11Bad(ln) == C11Names(CaseOf(ln), GotOf(ln))

\* known finding: the only thing wrong is the time travel, the update lists have same-time
\* entries of one position out of version order, and with the lists in THE order every
\* Judge holds
KF11_SameSecondOrder(ln) ==
  LET c == CaseOf(ln)  g == GotOf(ln) IN
  /\ C11Names(c, g) = {"TimeTravel"}
  /\ KF_SameSecondOrder_Run(g)
  /\ C11Names(c, ResortedGot(g)) = {}

ModelAgreesCG(c, g) ==
  IF g.err # "nil" THEN g.err \in CanonErrs(c)
  ELSE /\ CanonErrs(c) = {}
       /\ Resorted(g.par) = CanonPar(c)
       /\ \A i \in 1 .. Len(g.par) : g.app[i] = AppOf(g.par[i].refs, g.par[i].upd, Len(g.app[i]) - 1)

ModelAgrees(ln) == ModelAgreesCG(CaseOf(ln), GotOf(ln))

(* ---- call sequences: [case |-> [steps |-> <<case>>], got |-> <<got>>, crash |-> BOOLEAN] ----
   All steps of a line were annotated one after the other in one process.  History
   independence: what a call returns is judged against its own arguments only, so every
   step must satisfy the C11 Judges whatever was called before it (seq11), and steps
   with equal arguments must agree like repeated runs (seq12). *)
Steps(ln) == ln.case.steps
SeqC11Bad(ln) ==
  IF ln.crash THEN {"Crash"}
  ELSE UNION {C11Names(CaseOfC(Steps(ln)[k]), GotOfG(ln.got[k])) : k \in 1 .. Len(Steps(ln))}
SeqC12Bad(ln) ==
  IF ln.crash THEN {"Crash"}
  ELSE (IF \A a, b \in 1 .. Len(Steps(ln)) :
              Steps(ln)[a] = Steps(ln)[b] => DeterministicRuns(<<ln.got[a].runs[1], ln.got[b].runs[1]>>)
        THEN {} ELSE {"Deterministic"}) \cup
       (IF \A k \in 1 .. Len(Steps(ln)) : Sorted(ln.got[k].runs[1]) THEN {} ELSE {"Sorted"})
SeqModelAgrees(ln) == \A k \in 1 .. Len(Steps(ln)) : ModelAgreesCG(CaseOfC(Steps(ln)[k]), GotOfG(ln.got[k]))

(* ---- C12 ---- *)
RunsOf(ln) == ln.got.runs
C12Bad(ln) ==
  (IF DeterministicRuns(RunsOf(ln)) THEN {} ELSE {"Deterministic"}) \cup
  (IF \A r \in 1 .. Len(RunsOf(ln)) : Sorted(RunsOf(ln)[r]) THEN {} ELSE {"Sorted"})

\* known finding: every run succeeded, every list is ordered by (index, time), some list has
\* same-time entries of one position out of version order, and with every list put into
\* THE order the runs are identical
KF12_SameSecondOrder(ln) ==
  LET rs == RunsOf(ln) IN
  /\ \A r \in 1 .. Len(rs) : rs[r].err = "nil" /\ \A i \in 1 .. Len(rs[r].par) : IsSorted2(rs[r].par[i].upd)
  /\ \E r \in 1 .. Len(rs) : KF_SameSecondOrder_Run(rs[r])
  /\ \A a, b \in 1 .. Len(rs) : Resorted(rs[a].par) = Resorted(rs[b].par)

Bad(ln) == CASE Mode = "c12" -> C12Bad(ln)
             [] Mode = "seq11" -> SeqC11Bad(ln)
             [] Mode = "seq12" -> SeqC12Bad(ln)
             [] OTHER -> C11Bad(ln)
KF(ln) == CASE Mode = "c12" -> (IF KF12_SameSecondOrder(ln) THEN {"KF_SameSecondOrder"} ELSE {})
            [] Mode \in {"seq11", "seq12"} -> {}
            [] OTHER -> (IF KF11_SameSecondOrder(ln) THEN {"KF_SameSecondOrder"} ELSE {})
Agrees(ln) == CASE Mode = "c12" -> TRUE
                [] Mode = "seq12" -> TRUE
                [] Mode = "seq11" -> SeqModelAgrees(ln)
                [] OTHER -> ModelAgrees(ln)

Report(i) ==
  LET ln == Lines[i]  b == Bad(ln) IN
  IF b # {} THEN PrintT(<<"BAD", ToJson([i |-> i, why |-> b, kf |-> KF(ln)])>>)
  ELSE IF ~Agrees(ln)
    THEN PrintT(<<"BAD", ToJson([i |-> i, why |-> {"DIVERGENCE"}, kf |-> {}])>>)
    ELSE TRUE

ASSUME \A i \in 1 .. Len(Lines) : Report(i)
ASSUME PrintT(<<"JUDGED", Len(Lines)>>)

JInit == /\ h = 0 /\ pc = 0 /\ opt = 0 /\ todo = 0 /\ cur = 0 /\ ann = 0 /\ res = 0 /\ err = 0
JNext == UNCHANGED vars
=============================================================================
