---------------------------- MODULE AnnotateJudge ----------------------------
(* Judge for C11 and C12 on values recorded from the real annotate.Ways /      *)
(* annotate.Relations and ApplyUpdatesUpTo (harness/cmd/c11).  Every line is   *)
(*   [case |-> [h, o, kt, lay], got |-> [runs |-> <<[err, par]>>, app]]        *)
(* MODE = "c11": the C11 judges of Annotate.tla on the first run + its app.    *)
(* MODE = "c12": Deterministic over the R runs, Sorted on each.                *)
(* A line on which every Judge holds but which differs from the Model's result *)
(* (Canon / ApplyUpTo) is reported with why = <<"DIVERGENCE">>: never a        *)
(* violation (e.g. inside the +-threshold window of the timestamp regime the   *)
(* property is silent and the result is only bound to the transcription).      *)
EXTENDS Annotate, IOUtils, Json

Lines == ndJsonDeserialize(IOEnv.REC)
Mode == IOEnv.MODE

CaseOf(ln) == [h |-> ln.case.h, o |-> ln.case.o, kt |-> ln.case.kt]
GotOf(ln) == [err |-> ln.got.runs[1].err, par |-> ln.got.runs[1].par, app |-> ln.got.app]

\* the first run with every update list put into THE order and the applied states
\* recomputed from it by the Model's ApplyUpdatesUpTo
ResortedGot(g) ==
  [err |-> g.err, par |-> Resorted(g.par),
   app |-> [i \in 1 .. Len(g.par) |-> AppOf(g.par[i].refs, SortU(g.par[i].upd), Len(g.app[i]) - 1)]]

(* ---- C11 ---- *)
C11Bad(ln) == C11Names(CaseOf(ln), GotOf(ln))

\* known finding: the only thing wrong is the time travel, the update lists have same-time
\* entries of one position out of version order, and with the lists in THE order every
\* Judge holds
KF11_SameSecondOrder(ln) ==
  LET c == CaseOf(ln)  g == GotOf(ln) IN
  /\ C11Names(c, g) = {"TimeTravel"}
  /\ KF_SameSecondOrder_Run(g)
  /\ C11Names(c, ResortedGot(g)) = {}

ModelAgrees(ln) ==
  LET c == CaseOf(ln)  g == GotOf(ln) IN
  IF g.err # "nil" THEN g.err \in CanonErrs(c)
  ELSE /\ CanonErrs(c) = {}
       /\ Resorted(g.par) = CanonPar(c)
       /\ \A i \in 1 .. Len(g.par) : g.app[i] = AppOf(g.par[i].refs, g.par[i].upd, Len(g.app[i]) - 1)

(* ---- C12 ---- *)
RunsOf(ln) == ln.got.runs
C12Bad(ln) ==
  (IF DeterministicRuns(RunsOf(ln)) THEN {} ELSE {"Deterministic"}) \cup
  (IF \A r \in 1 .. Len(RunsOf(ln)) : Sorted(RunsOf(ln)[r]) THEN {} ELSE {"Sorted"})

\* known finding: every run succeeded, every list is ordered by (index, time), some list has
\* same-time entries of one position out of version order, and with every list put into
\* THE order the runs are identical
KF12_SameSecondOrder(ln) ==
  LET rs == RunsOf(ln) IN
  /\ \A r \in 1 .. Len(rs) : rs[r].err = "nil" /\ \A i \in 1 .. Len(rs[r].par) : IsSorted2(rs[r].par[i].upd)
  /\ \E r \in 1 .. Len(rs) : KF_SameSecondOrder_Run(rs[r])
  /\ \A a, b \in 1 .. Len(rs) : Resorted(rs[a].par) = Resorted(rs[b].par)

Bad(ln) == IF Mode = "c12" THEN C12Bad(ln) ELSE C11Bad(ln)
KF(ln) == IF Mode = "c12" THEN (IF KF12_SameSecondOrder(ln) THEN {"KF_SameSecondOrder"} ELSE {})
          ELSE (IF KF11_SameSecondOrder(ln) THEN {"KF_SameSecondOrder"} ELSE {})

Report(i) ==
  LET ln == Lines[i]  b == Bad(ln) IN
  IF b # {} THEN PrintT(<<"BAD", ToJson([i |-> i, why |-> b, kf |-> KF(ln)])>>)
  ELSE IF Mode # "c12" /\ ~ModelAgrees(ln)
    THEN PrintT(<<"BAD", ToJson([i |-> i, why |-> {"DIVERGENCE"}, kf |-> {}])>>)
    ELSE TRUE

ASSUME \A i \in 1 .. Len(Lines) : Report(i)
ASSUME PrintT(<<"JUDGED", Len(Lines)>>)

JInit == /\ h = 0 /\ pc = 0 /\ opt = 0 /\ todo = 0 /\ cur = 0 /\ ann = 0 /\ res = 0 /\ err = 0
JNext == UNCHANGED vars
=============================================================================
