\* design level, quick: every way/relation with <= 2 children, every stored list of <= 3 updates,
\* times 1..2, every t1 <= t2 in 0..2
CONSTANTS
  MaxN = 2
  MaxL = 3
  MaxT = 2
  Kinds = {"way", "relation"}
  UnannChoices = {0, 1}
  LocKinds = {"n"}
  BreakAtLate = FALSE
SPECIFICATION Spec
INVARIANTS Exact1 Exact2 Pending1 Pending2 IndexErr1 IndexErr2 Compose GeomAt1 GeomAt2 FoldsAgree UpToSplit KFExact
CHECK_DEADLOCK FALSE
