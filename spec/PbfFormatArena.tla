-------------------------- MODULE PbfFormatArena --------------------------
(***************************************************************************)
(* C08, the MECHANISM: how scanPrimitiveGroup / extractDenseNodes reuse    *)
(* the memory of rejected elements (decode_data.go:148-224, 455-501).      *)
(*                                                                         *)
(* Memory is an arena of arrays (heap[a] = the cells of array a, its       *)
(* length is the capacity); a Go slice is (arr, len), arr = 0 is nil.      *)
(* One scratch object per element type is decoded into; when the filter    *)
(* accepts, the object itself is delivered (appended to the block's        *)
(* queue) and a FRESH scratch object is allocated; when it rejects, the    *)
(* scratch object is reset but keeps its tag / node / member arrays        *)
(* truncated to length 0.  Dense nodes append their tags into the kept     *)
(* array when its capacity suffices; ways and relations get their tag and  *)
(* member arrays from scanTags / extractMembers (always newly made) and    *)
(* their node array newly made whenever the kept one has length 0.         *)
(*                                                                         *)
(* Invariants (checked by TLC for every group of <= N elements, every tag  *)
(* / ref count pattern and every accept set):                              *)
(*   NoSharedArray  no array is reachable from two delivered objects, nor  *)
(*                  from a delivered object and the scratch object         *)
(*   Unmodified     every delivered object still has the value it had when *)
(*                  it was delivered                                        *)
(*   Selected       the delivered values are exactly the accepted elements *)
(*                  in order, unchanged (Filtered restricted to one group) *)
(* Bug = "none" is the mechanism as designed; the other values remove one  *)
(* of its steps and must make TLC report a violation (non-vacuity).        *)
(***************************************************************************)
EXTENDS Integers, Sequences, FiniteSets, TLC
CONSTANTS Bug,        \* "none" | "keeptags" | "nofresh" | "waykeeptags" | "waykeepnodes" | "keepversion"
          N,          \* elements per group
          MaxTags, MaxRefs

VARIABLES kind,       \* "dense" | "ways"   (relations behave like ways: members = nodes)
          elems,      \* the group: sequence of [tags : 0..MaxTags, refs : 0..MaxRefs, ver : BOOLEAN (Info.version written)]
          accept,     \* set of accepted positions
          i,          \* next element
          heap, scratch, delivered, snap
vars == <<kind, elems, accept, i, heap, scratch, delivered, snap>>

NilSlice == [arr |-> 0, len |-> 0]
Cap(s)   == IF s.arr = 0 THEN 0 ELSE Len(heap[s.arr])
CapIn(h, s) == IF s.arr = 0 THEN 0 ELSE Len(h[s.arr])
Value(h, s) == IF s.arr = 0 THEN << >> ELSE SubSeq(h[s.arr], 1, s.len)
FreshObj == [tags |-> NilSlice, nodes |-> NilSlice, ver |-> 0, id |-> 0]

\* the values element k of the group decodes to
TagVals(k)  == [j \in 1 .. elems[k].tags |-> <<"t", k, j>>]
RefVals(k)  == [j \in 1 .. elems[k].refs |-> <<"r", k, j>>]
VerVal(k)   == IF elems[k].ver THEN 10 + k ELSE 0
ValueOf(k)  == [id |-> k, ver |-> VerVal(k), tags |-> TagVals(k), nodes |-> RefVals(k)]

\* make([]T, n): a new array; returns <<heap', slice>>
Make(h, n, len) == <<Append(h, [j \in 1 .. n |-> <<"zero">>]), [arr |-> Len(h) + 1, len |-> len]>>
\* append(s, vals...): in place when the capacity suffices, else a new array with the old cells copied
AppendAll(h, s, vals) ==
  IF s.len + Len(vals) <= CapIn(h, s)
  THEN IF Len(vals) = 0 THEN <<h, s>>
       ELSE <<[h EXCEPT ![s.arr] = [j \in 1 .. Len(h[s.arr]) |-> IF j > s.len /\ j <= s.len + Len(vals) THEN vals[j - s.len] ELSE h[s.arr][j]]],
              [s EXCEPT !.len = s.len + Len(vals)]>>
  ELSE <<Append(h, Value(h, s) \o vals), [arr |-> Len(h) + 1, len |-> s.len + Len(vals)]>>

ObjValue(h, o) == [id |-> o.id, ver |-> o.ver, tags |-> Value(h, o.tags), nodes |-> Value(h, o.nodes)]

(* ------------------------- decode into the scratch ----------------------- *)
\* extractDenseNodes: count tags; if cap(n.Tags) < count { n.Tags = make(0, count) }; append each tag
DecodeDense(k) ==
  LET vals == TagVals(k)
      a == IF CapIn(heap, scratch.tags) < Len(vals) THEN Make(heap, Len(vals), 0) ELSE <<heap, scratch.tags>>
      b == AppendAll(a[1], a[2], vals) IN
  <<b[1], [scratch EXCEPT !.id = k, !.tags = b[2], !.ver = IF elems[k].ver THEN VerVal(k) ELSE @]>>

\* scanWays: Info.version overwrites only if written; refs: if len(way.Nodes) == 0 { make(count) } then way.Nodes[index] = ...;
\* tags: way.Tags = scanTags(...) (a new array) iff keys and vals were found
DecodeWay(k) ==
  LET refs == RefVals(k)   tags == TagVals(k)
      n1 == IF Len(refs) = 0 THEN <<heap, scratch.nodes>>            \* field absent: Nodes untouched
            ELSE IF scratch.nodes.len = 0
                 THEN LET m == Make(heap, Len(refs), Len(refs)) IN <<[m[1] EXCEPT ![m[2].arr] = refs], m[2]>>
                 ELSE \* writes way.Nodes[0 .. count-1] of the existing slice (index out of range is not modelled: stays in bounds here)
                      <<[heap EXCEPT ![scratch.nodes.arr] = [j \in 1 .. Len(heap[scratch.nodes.arr]) |-> IF j <= Len(refs) THEN refs[j] ELSE heap[scratch.nodes.arr][j]]],
                        scratch.nodes>>
      t1 == IF Len(tags) = 0 THEN <<n1[1], scratch.tags>>
            ELSE LET m == Make(n1[1], Len(tags), Len(tags)) IN <<[m[1] EXCEPT ![m[2].arr] = tags], m[2]>> IN
  <<t1[1], [scratch EXCEPT !.id = k, !.nodes = n1[2], !.tags = t1[2], !.ver = IF elems[k].ver THEN VerVal(k) ELSE @]>>

Step ==
  /\ i <= Len(elems)
  /\ LET d == IF kind = "dense" THEN DecodeDense(i) ELSE DecodeWay(i)
         h == d[1]   o == d[2] IN
     IF i \in accept
     THEN \* dec.q = append(dec.q, n); n = &osm.Node{Visible: true}
          /\ delivered' = Append(delivered, o)
          /\ snap' = Append(snap, ObjValue(h, o))
          /\ scratch' = IF Bug = "nofresh" THEN o ELSE FreshObj
          /\ heap' = h
     ELSE \* *n = osm.Node{Visible: true, Tags: n.Tags[:0]}   /   *way = osm.Way{Visible: true, Nodes: nodes[:0], Tags: tags[:0]}
          /\ scratch' = [id |-> 0,
                         ver |-> IF Bug = "keepversion" THEN o.ver ELSE 0,
                         tags |-> IF (Bug = "keeptags" /\ kind = "dense") \/ (Bug = "waykeeptags" /\ kind = "ways") THEN o.tags ELSE [o.tags EXCEPT !.len = 0],
                         nodes |-> IF Bug = "waykeepnodes" /\ kind = "ways" THEN o.nodes ELSE [o.nodes EXCEPT !.len = 0]]
          /\ heap' = h
          /\ UNCHANGED <<delivered, snap>>
  /\ i' = i + 1
  /\ UNCHANGED <<kind, elems, accept>>

Init ==
  /\ kind \in {"dense", "ways"}
  /\ elems \in [1 .. N -> [tags : 0 .. MaxTags, refs : 0 .. MaxRefs, ver : BOOLEAN]]
  /\ (kind = "dense" => \A k \in 1 .. N : elems[k].refs = 0 /\ elems[k].ver = elems[1].ver)     \* a DenseInfo column is per group
  /\ accept \in SUBSET (1 .. N)
  /\ i = 1 /\ heap = << >> /\ scratch = FreshObj /\ delivered = << >> /\ snap = << >>
Spec == Init /\ [][Step]_vars

(* --------------------------------- invariants ---------------------------- *)
Arrays(o) == {o.tags.arr, o.nodes.arr} \ {0}
NoSharedArray ==
  /\ \A a, b \in 1 .. Len(delivered) : a # b => Arrays(delivered[a]) \cap Arrays(delivered[b]) = {}
  /\ \A a \in 1 .. Len(delivered) : Arrays(delivered[a]) \cap Arrays(scratch) = {}
Unmodified == \A a \in 1 .. Len(delivered) : ObjValue(heap, delivered[a]) = snap[a]
Selected ==
  LET F[k \in 0 .. i - 1] == IF k = 0 THEN << >> ELSE IF k \in accept THEN Append(F[k - 1], ValueOf(k)) ELSE F[k - 1] IN
  snap = F[i - 1]
=============================================================================
