------------------------ MODULE PolygonRulesJudge ------------------------
(* Judge for C18: every recorded line is [case |-> c, got |-> BOOLEAN].   *)
EXTENDS PolygonRules, IOUtils
Lines == ndJsonDeserialize(IOEnv.REC)
LineOK(ln) == ln.got = Expected(ln.case)
ASSUME \A i \in 1 .. Len(Lines) :
          LineOK(Lines[i]) \/ PrintT(<<"BAD", ToJson([i |-> i, why |-> <<"expected", Expected(Lines[i].case)>>, kf |-> {}])>>)
ASSUME PrintT(<<"JUDGED", Len(Lines)>>)
JInit == case = 0
JNext == UNCHANGED case
=============================================================================
