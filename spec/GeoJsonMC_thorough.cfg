CONSTANTS
  Chunks = 256
  FullFor = {"F1", "F2", "F3", "F4", "F5", "F6", "F7", "F8", "F9"}
  FormerTree = FALSE
  Variants = {TRUE}
INIT Init
NEXT Next
INVARIANTS ModelledOnly MachineIsConv AsIsIsIdeal AtMostOneInv CarriesInv MetaMemberInv NodeRuleInv WayGeomInv RouteInv OptionsInv AllOptionSetsInv SkipInv
PROPERTY InputUnmodified
CHECK_DEADLOCK FALSE
