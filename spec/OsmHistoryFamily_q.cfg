CONSTANTS
  NSet = {2, 5, 7}
  MSet = {3, 4}
  RSet = {1, 2}
  FamOpts <- OptsOrder
INIT FInit
NEXT FNext
CHECK_DEADLOCK FALSE
