CONSTANTS
  NSet = {2, 5, 7}
  MSet = {3, 4}
  TailMSet = {4, 6}
  RSet = {1, 2}
  FamOpts <- OptsOrder
INIT FInit
NEXT FNext
CHECK_DEADLOCK FALSE
