\* one OSM value: Append of every kind (new objects and the same pointer again), the three sorts, OSM.HistoryDatasource
CONSTANTS
  Ids = {1, 2}
  Vers = {1, 2}
  Kinds = {"node", "way", "relation", "changeset", "note", "user", "bounds"}
  Targets = {"doc"}
  VisVals = {TRUE}
  Families = {"append", "reappend", "sort", "docds"}
  MaxOps = 3
  TagKeys = {}
  TagVals = {}
  RefKinds = {}
  RefVers = {}
  Coords = {}
SPECIFICATION Spec
INVARIANTS JudgeQueriesHold ObjectsOrder IdsAgree WellTyped SortsOK DsContents
PROPERTIES JudgeStepsHold Frame
CHECK_DEADLOCK FALSE
