\* design level, location symbols: a way with one node, every stored list of <= 2 updates, every location
\* symbol (ordinary, origin (0,0), only lat 0, only lon 0) on the node and on every update, every t1 <= t2
CONSTANTS
  MaxN = 1
  MaxL = 2
  MaxT = 2
  Kinds = {"way"}
  UnannChoices = {0}
  LocKinds = {"n", "o", "la", "lo"}
  BreakAtLate = FALSE
SPECIFICATION Spec
INVARIANTS Exact1 Exact2 Pending1 Pending2 IndexErr1 IndexErr2 Compose GeomAt1 GeomAt2 FoldsAgree KFExact
CHECK_DEADLOCK FALSE
