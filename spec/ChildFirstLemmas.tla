--------------------------- MODULE ChildFirstLemmas ---------------------------
(* The Judge evaluates ChildrenFirst on recorded runs through AcyclicK / J_ChildrenFirstD (cheap on graphs with   *)
(* hundreds of relations).  TLC checks here that they are the same predicates as the property's literal form      *)
(* (Acyclic / J_ChildrenFirst: "every relation reachable from it"): for EVERY graph of the family and EVERY        *)
(* sequence over 0..N of length <= MaxSeq (0 = an id that is not in the case; duplicates included).               *)
EXTENDS ChildFirstMC

CONSTANT MaxSeq
Hists == [1 .. N -> MCVersions]
Seqs  == UNION {[1 .. k -> 0 .. N] : k \in 0 .. MaxSeq}

ASSUME \A h \in Hists : AcyclicK(h) = Acyclic(h)
ASSUME \A h \in Hists : LET adj == Adj(h) acyc == AcyclicA(adj) IN
          \A s \in Seqs : J_ChildrenFirstD(h, adj, acyc, s) = J_ChildrenFirst(h, s)
ASSUME PrintT(<<"LEMMAS", Cardinality(Hists), Cardinality(Seqs)>>)
LNext == UNCHANGED vars
=============================================================================
