CONSTANT Big = FALSE
INIT VInit
NEXT Next
INVARIANT ValueRoundTrip
INVARIANT ValueNamesOK
CHECK_DEADLOCK FALSE
