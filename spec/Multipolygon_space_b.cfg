\* the generating machine (AddCut, CloseRing, Place) produces member lists of the declared input space Cases(g)
CONSTANT Shapes <- S_SpaceB
CONSTANT MaxPieces = 1
CONSTANT MaskMode = "basic"
CONSTANT Tasks = {}
CONSTANT Patterns = {"of", "if", "alt"}
INIT Init
NEXT NextGen
INVARIANT ReadyIsCase
CHECK_DEADLOCK FALSE
