CONSTANT Configs <- CfgsPinnedEof
INIT Init
NEXT Next
VIEW View
INVARIANTS ErrPrecedenceInv
CHECK_DEADLOCK FALSE
