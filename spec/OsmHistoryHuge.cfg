INIT FInit
NEXT FNext
CHECK_DEADLOCK FALSE
