--------------------------- MODULE PbfFormatBigGen ---------------------------
(* Large-block cases for C01 (ForFilter = FALSE) or C08 (TRUE); only cases whose expected runs are canonical.     *)
EXTENDS PbfFormatBig, IOUtils, Json, SequencesExt
CONSTANTS Full, ForFilter, Seed      \* (Seed is not used by the case set: the big files are fixed; it seeds the renderer)
Cases == IF ForFilter THEN BigC08Cases(Full) ELSE BigC01Cases(Full)
ASSUME \E cs \in {SetToSeq({c \in Cases : CanonicalCase(c)})} :
          /\ Len(cs) > 0
          /\ ndJsonSerialize(IOEnv.OUT, cs)
          /\ PrintT(<<"GENERATED", Len(cs), "of", Cardinality(Cases)>>)
VARIABLE v
GInit == v = 0
GNext == UNCHANGED v
=============================================================================
