\* the pinned tree's deviations switched on: TLC is expected to REFUTE Terminates (e.g. present = {1,3}, t between)
CONSTANTS
  MaxSeq = 5
  Offsets = {}
  OffN = 1
  LongOffsets = {}
  LongSizes = {}
  LongRuns <- RunsQuick
  FullQueries = 301
  PauseSizes = {}
  DevSets <- OnlyPinned
SPECIFICATION MCFairSpec
PROPERTY Terminates
CHECK_DEADLOCK FALSE
