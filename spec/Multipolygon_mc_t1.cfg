\* design level: Model |= Judges over every cut / reversal / member order of the shapes
CONSTANT Shapes <- S_One
CONSTANT MaxPieces = 4
CONSTANT MaskMode = "basic"
CONSTANT Tasks = {"convert", "annotate"}
CONSTANT Patterns = {"all"}
INIT Init
NEXT Next
INVARIANT ConvertRecovers
INVARIANT AnnotateMarks
INVARIANT Deterministic
INVARIANT RemoveIsRemoveAt
INVARIANT NoJoinReversalWhenAnnotated
INVARIANT JoinEmitsRings
