CONSTANT MaxCalls = 7
CONSTANT TokenSeqs <- MCTokenSeqs
SPECIFICATION Spec
INVARIANT TypeOK
INVARIANT StreamInv
INVARIANT CompleteInv
INVARIANT LaterScansFalse
INVARIANT ErrPrecedence
INVARIANT FalseReasonInv
INVARIANT ReadAheadInv
PROPERTY ScanReturns
CHECK_DEADLOCK FALSE
