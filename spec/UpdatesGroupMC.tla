--------------------------- MODULE UpdatesGroupMC ---------------------------
(* Design level for the consumer: the Model of mputil.Group (GroupSegs, one  *)
(* fresh geometry per occurrence of the way) satisfies GroupJ for every way  *)
(* with <= 2 nodes, every stored list of <= 2 updates, every t and every     *)
(* member list of <= 2 members drawn from MemberChoices - and a variant that *)
(* shares one line between the occurrences of the way does not.              *)
EXTENDS Updates

Ways == UNION {{<<ChildrenOf("way", n, 0), MkList(f)>> : f \in [1 .. l -> Choice("way", n, 2)]} : n \in 1 .. 2, l \in 0 .. 2}
MLists == UNION {[1 .. m -> MemberChoices] : m \in 0 .. 2}
Segs(c, u, t, ms) == GroupSegs(c, u, t, ms, "outer", FALSE) \o GroupSegs(c, u, t, ms, "inner", FALSE)
ASSUME \A wy \in Ways, t \in 0 .. 2, ms \in MLists :
          GroupJ(wy[1], wy[2], t, ms, Segs(wy[1], wy[2], t, ms), LineString(Apply("way", wy[1], wy[2], t).children))

\* sharing one line: every reversal turns all occurrences around, so each segment ends up turned by the parity
\* of the number of reversed occurrences
SharedSegs(c, u, t, ms) ==
  LET sg == Segs(c, u, t, ms)
      odd == Cardinality({j \in 1 .. Len(sg) : sg[j].rev}) % 2 = 1
      line == LsAt(c, u, t, FALSE) IN
  [j \in 1 .. Len(sg) |-> [sg[j] EXCEPT !.line = IF odd THEN Rev(line) ELSE line]]
ASSUME \E wy \in Ways, t \in 0 .. 2, ms \in MLists :
          ~GroupJ(wy[1], wy[2], t, ms, SharedSegs(wy[1], wy[2], t, ms), LineString(Apply("way", wy[1], wy[2], t).children))
ASSUME PrintT(<<"GROUPMC", Cardinality(Ways), Cardinality(MLists)>>)
GInit == pc = "mc" /\ kind = "" /\ ch = <<>> /\ us = <<>> /\ t1 = 0 /\ t2 = 0 /\ w = Nil /\ out = NoOut
GNext == UNCHANGED vars
=============================================================================
