CONSTANTS
  N = 3
  MaxMem = 1
  MaxReq = 2
  Family = "flat"
  FlagFamily = "stops"
  WithBad = FALSE
  CanonicalReqs = TRUE
  VersionSets <- MCVersions
  ReqLists <- MCReqs
  BadSets <- MCBad
  FlagSets <- MCFlags
SPECIFICATION FairRed
PROPERTIES CancelEndsGoroutine CloseReturns NextReturns
CHECK_DEADLOCK FALSE
