------------------------------ MODULE Updates ------------------------------
(* C15 - applying updates is exact, composable and agrees with            *)
(* geometry-at-time.                                                       *)
(*                                                                         *)
(* Subsystem: osm.Way.ApplyUpdatesUpTo / applyUpdate, osm.Way.LineString / *)
(* LineStringAt, osm.Relation.ApplyUpdatesUpTo / applyUpdate,              *)
(* osm.Updates.UpTo / SortByTimestamp / SortByIndex.                       *)
(*                                                                         *)
(* Three layers in one module:                                             *)
(*   MODEL   the loops of the implementation, one step function per loop   *)
(*           iteration (ApplyStep, LsStep), folded (Apply, LsAt) and run   *)
(*           as a step machine (Init/Next) so that TLC explores them       *)
(*           action by action;                                             *)
(*   JUDGE   declarative statements of the listed property, nothing more   *)
(*           (ExactJ, PendingJ, IndexErrJ, ComposeJ, GeomJ); they never    *)
(*           mention the loops;                                            *)
(*   INPUTS  the space of elements x stored update lists x (t1 <= t2),     *)
(*           built by the generating actions AddUpdate / Choose (model     *)
(*           checking) and as sets (Cases*, used by UpdatesGen).           *)
(*                                                                         *)
(* All values are small symbolic integers (TLC integers are 32 bit); the   *)
(* Go harness maps them injectively to time.Time / float64 / ids and back. *)
(* Child positions in updates (idx) are 0-based as in Go; TLA+ sequences   *)
(* are 1-based, so update u names child number u.idx + 1.                  *)
EXTENDS Integers, Sequences, FiniteSets, TLC

CONSTANTS MaxN,         \* children per element: 1 .. MaxN
          MaxL,         \* stored updates per element: 0 .. MaxL
          MaxT,         \* update time stamps 1 .. MaxT; query times 0 .. MaxT
          Kinds,        \* subset of {"way", "relation"}
          UnannChoices, \* subset of 0 .. MaxN: 0 = fully annotated way, j = way whose child j is not annotated
          LocKinds,     \* location symbols the step machine explores (subset of LocAll; {"n"} = ordinary ones only)
          BreakAtLate   \* TRUE = LineStringAt leaves its loop at the first too-late update (pinned tree,
                        \* way.go:174); FALSE = it skips that update and goes on (what the doc comment says)

-----------------------------------------------------------------------------
(* Vocabulary                                                              *)

\* child j of an element.  Ways: way nodes (no orientation, ori = 0).  Relations: members; member 2 is a
\* node member, the others way members with orientation CCW (1), CW (-1) or unknown (0).
OriOf(j) == IF j = 2 THEN 0 ELSE IF j % 4 = 1 THEN 1 ELSE IF j % 4 = 3 THEN -1 ELSE 0
\* what an update must not touch: the member's role and, for way members, the optional node path of the member
\* (Member.Nodes, overpass "out geom" style; entries <<node ref, lon, lat>>); way nodes have neither
RoleOf(j) == <<"outer", "", "inner", "outer">>[((j - 1) % 4) + 1]
PathOf(j) == IF j = 2 THEN <<>> ELSE IF j % 4 = 1 THEN <<<<201, 81, 91>>, <<202, 82, 92>>>>
             ELSE IF j % 4 = 3 THEN <<>> ELSE <<<<203, 83, 93>>>>
ChildOf(kind, j, unann) ==
  IF kind = "way"
  THEN IF j = unann
       THEN [typ |-> "node", ref |-> 100 + j, ver |-> 0, cs |-> 0, lat |-> 0, lon |-> 0, ori |-> 0,
             role |-> "", nodes |-> <<>>]
       ELSE [typ |-> "node", ref |-> 100 + j, ver |-> 10 + j, cs |-> 50 + j, lat |-> 60 + j, lon |-> 70 + j, ori |-> 0,
             role |-> "", nodes |-> <<>>]
  ELSE [typ |-> IF j = 2 THEN "node" ELSE "way", ref |-> 100 + j, ver |-> 10 + j, cs |-> 50 + j,
        lat |-> 60 + j, lon |-> 70 + j, ori |-> OriOf(j), role |-> RoleOf(j), nodes |-> PathOf(j)]
ChildrenOf(kind, n, unann) == [j \in 1 .. n |-> ChildOf(kind, j, unann)]

\* Location symbols.  "n" = the ordinary location of the child / update (distinct, non-zero); "o" = the origin,
\* exactly (0, 0) - a real place, and an annotated node or an update may sit there; "la" / "lo" = only the
\* latitude / only the longitude is 0 (controls).  0 renders to 0.0.  A node that is not annotated (version 0
\* and location 0/0) is a different thing and keeps its meaning.
\* Zero values of the other fields: "c0" = changeset 0 (an element decoded without the attribute), "v0" = version
\* 0, "cv0" = both, with the ordinary location - on children and on updates, ways and relations.  (An update with
\* version 0 *at the origin* would un-annotate the node it is applied to, which voids the "fully annotated"
\* premise of the geometry law at that time; the symbols are exclusive, so that combination is not generated.)
LocAll == {"n", "o", "la", "lo", "c0", "v0", "cv0"}
SetLoc(r, lk) == CASE lk = "n"   -> r
                   [] lk = "o"   -> [r EXCEPT !.lat = 0, !.lon = 0]
                   [] lk = "la"  -> [r EXCEPT !.lat = 0]
                   [] lk = "lo"  -> [r EXCEPT !.lon = 0]
                   [] lk = "c0"  -> [r EXCEPT !.cs = 0]
                   [] lk = "v0"  -> [r EXCEPT !.ver = 0]
                   [] lk = "cv0" -> [r EXCEPT !.cs = 0, !.ver = 0]
\* children with the location symbols lc[j] (annotated children only)
ChildrenOfL(kind, n, unann, lc) ==
  [j \in 1 .. n |-> IF kind = "way" /\ j = unann THEN ChildOf(kind, j, unann) ELSE SetLoc(ChildOf(kind, j, unann), lc[j])]

\* the free dimensions of one update: which child, when, and (relations, way members only) whether the new
\* version of the member way is the reverse of the previous one.  idx = n is beyond the child list.
ChoiceL(kind, n, T, LK) ==
  {c \in [idx : 0 .. n, time : 1 .. T, rev : BOOLEAN, loc : LK] :
       c.rev => (kind = "relation" /\ c.idx # 1)}
Choice(kind, n, T) == ChoiceL(kind, n, T, {"n"})
\* the payload of the k-th stored update is determined by k: changeset and location are distinct from each
\* other and from the children's and not 0 unless the update's location symbol says so; the versions
\* (children: 11, 12, ...) go up, down and repeat along the stored list so that an update can carry a
\* version above, equal to or below the one the child currently has
VerOf(k) == <<12, 11, 13, 11, 12>>[((k - 1) % 5) + 1]
\* (positions beyond 9, used by the long-list family, get payload symbols above the children's)
MkUpd(k, c) == SetLoc([idx |-> c.idx, time |-> c.time, rev |-> c.rev, ver |-> VerOf(k),
                        cs |-> IF k <= 9 THEN 20 + k ELSE 100 + k, lat |-> IF k <= 9 THEN 30 + k ELSE 100 + k,
                        lon |-> IF k <= 9 THEN 40 + k ELSE 140 + k], c.loc)
MkList(f) == [k \in DOMAIN f |-> MkUpd(k, f[k])]

Pairs(T) == {p \in (0 .. T) \X (0 .. T) : p[1] <= p[2]}

\* The element's own time: ts = its Timestamp, com = its Committed; -1 = not set (zero time / nil), otherwise
\* a symbolic time 0 .. T + 1 on the same axis as the update stamps and the query times (so it lies before,
\* at, between or after the stamps, and every query time 0 .. T is before, at or after it).  Committed is
\* nil, earlier than, equal to or later than the Timestamp.  Neither the Model nor any Judge takes it as an
\* argument: the property does not mention the element's own time, so no answer may depend on it.
OwnChoices(T) ==
  {o \in [ts : -1 .. T + 1, com : -1 .. T + 1] :
       o.com = -1 \/ o.ts = -1 \/ o.com \in {o.ts - 1, o.ts, o.ts + 1}}
NoOwn == [ts |-> -1, com |-> -1]

-----------------------------------------------------------------------------
(* MODEL - ApplyUpdatesUpTo (way.go:118-149, relation.go:142-176)          *)

\* applyUpdate on an existing child
SetChild(kind, c, u) ==
  [c EXCEPT !.ver = u.ver, !.cs = u.cs, !.lat = u.lat, !.lon = u.lon,
            !.ori = IF kind = "relation" /\ u.rev THEN 0 - c.ori ELSE c.ori]

\* loop state: c = children so far, k = next stored update, na = notApplied, err
ApplyStart(c) == [c |-> c, k |-> 1, na |-> <<>>, err |-> "none", erridx |-> -1]
ApplyFinished(w, us) == w.err # "none" \/ w.k > Len(us)
IsKeep(w, us, t) == us[w.k].time > t
IsIndexErr(w, us, t) == us[w.k].time <= t /\ us[w.k].idx >= Len(w.c)
IsApply(w, us, t) == us[w.k].time <= t /\ us[w.k].idx < Len(w.c)
\* one iteration of `for _, u := range Updates`
ApplyStep(kind, w, us, t) ==
  LET u == us[w.k] IN
  IF IsKeep(w, us, t) THEN [w EXCEPT !.na = Append(@, u), !.k = @ + 1]
  ELSE IF IsIndexErr(w, us, t) THEN [w EXCEPT !.err = "index", !.erridx = u.idx]    \* early return
  ELSE [w EXCEPT !.c[u.idx + 1] = SetChild(kind, @, u), !.k = @ + 1]
\* the element after the call: on error the Updates field is not replaced (early return)
ApplyResult(w, us) == [err |-> w.err, erridx |-> w.erridx, children |-> w.c,
                       pending |-> IF w.err = "none" THEN w.na ELSE us]
RECURSIVE ApplyLoop(_, _, _, _)
ApplyLoop(kind, w, us, t) ==
  IF ApplyFinished(w, us) THEN ApplyResult(w, us) ELSE ApplyLoop(kind, ApplyStep(kind, w, us, t), us, t)
Apply(kind, c, us, t) == ApplyLoop(kind, ApplyStart(c), us, t)

(* MODEL - LineString / LineStringAt (way.go:151-199)                      *)
Annotated(c) == c.ver # 0 \/ c.lon # 0 \/ c.lat # 0
FullyAnnotated(c) == \A i \in 1 .. Len(c) : Annotated(c[i])
Pt(c) == <<c.lon, c.lat>>
\* keep the points whose child satisfies `Annotated`, in order
KeptIdx(c) == LET Keep(i) == Annotated(c[i]) IN SelectSeq([i \in 1 .. Len(c) |-> i], Keep)
Compress(c, pts) == LET ix == KeptIdx(c) IN [j \in 1 .. Len(ix) |-> pts[ix[j]]]
LineString(c) == Compress(c, [i \in 1 .. Len(c) |-> Pt(c[i])])

LsStart(c) == [ls |-> [i \in 1 .. Len(c) |-> Pt(c[i])], k |-> 1]
LsFinished(w, us) == w.k > Len(us)
LsStep(w, us, t, brk) ==
  LET u == us[w.k] IN
  IF u.time > t THEN (IF brk THEN [w EXCEPT !.k = Len(us) + 1] ELSE [w EXCEPT !.k = @ + 1])
  ELSE IF u.idx >= Len(w.ls) THEN [w EXCEPT !.k = @ + 1]
  ELSE [w EXCEPT !.ls[u.idx + 1] = <<u.lon, u.lat>>, !.k = @ + 1]
RECURSIVE LsLoop(_, _, _, _, _)
LsLoop(c, w, us, t, brk) ==
  IF LsFinished(w, us) THEN Compress(c, w.ls) ELSE LsLoop(c, LsStep(w, us, t, brk), us, t, brk)
LsAt(c, us, t, brk) == LsLoop(c, LsStart(c), us, t, brk)

(* MODEL - Updates.UpTo and the sorts (update.go:36-85)                    *)
UpTo(us, t) == LET Early(u) == u.time <= t IN SelectSeq(us, Early)
IsPermOf(a, b) == /\ Len(a) = Len(b)
                  /\ \E p \in [1 .. Len(a) -> 1 .. Len(a)] :
                        /\ \A i, j \in 1 .. Len(a) : i # j => p[i] # p[j]
                        /\ \A i \in 1 .. Len(a) : a[i] = b[p[i]]
SortedByTime(s) == \A i \in 1 .. Len(s) - 1 : s[i].time <= s[i + 1].time
SortedByIndex(s) == \A i \in 1 .. Len(s) - 1 :
                       \/ s[i].idx < s[i + 1].idx
                       \/ (s[i].idx = s[i + 1].idx /\ s[i].time <= s[i + 1].time)

(* MODEL - mputil.Group (internal/mputil/mputil.go:128-176), the consumer  *)
(* of LineStringAt when the members of a multipolygon are grouped.  A       *)
(* member is [tgt, role, ori]: tgt "way" = the way of the case (the same    *)
(* way may be listed several times), "gone" = a way that is not available,  *)
(* "node" = a node member; role "outer" / "inner" / other; ori = the        *)
(* annotated orientation 1 (CCW) / -1 (CW) / 0.                             *)
Rev(s) == [i \in 1 .. Len(s) |-> s[Len(s) + 1 - i]]
MemberChoices == [tgt : {"way", "gone", "node"}, role : {"outer", "inner", "via"}, ori : {-1, 0, 1}]
GroupRev(m) == (m.role = "outer" /\ m.ori = -1) \/ (m.role = "inner" /\ m.ori = 1)
\* the segments of one role, in member order; every occurrence gets its own line
GroupSegs(c, us, t, ms, role, brk) ==
  LET line == LsAt(c, us, t, brk)
      Keep(i) == ms[i].tgt = "way" /\ ms[i].role = role /\ Len(line) > 0
      ix == SelectSeq([i \in 1 .. Len(ms) |-> i], Keep) IN
  [j \in 1 .. Len(ix) |-> [idx |-> ix[j] - 1, ori |-> ms[ix[j]].ori, rev |-> GroupRev(ms[ix[j]]),
                            line |-> IF GroupRev(ms[ix[j]]) THEN Rev(line) ELSE line]]
GroupTainted(c, us, t, ms, brk) ==
  \E i \in 1 .. Len(ms) : ms[i].tgt = "gone" \/ (ms[i].tgt = "way" /\ Len(LsAt(c, us, t, brk)) # Len(c))

-----------------------------------------------------------------------------
(* JUDGE - the property as stated, over (element, stored list, t) and the  *)
(* observed result r = [err, erridx, children, pending] of one call.       *)

AppK(us, t) == {k \in 1 .. Len(us) : us[k].time <= t}          \* updates stamped at or before t
InRange(c, us, t) == \A k \in AppK(us, t) : us[k].idx < Len(c)  \* none of them points beyond the child list
NamedK(us, t, i) == {k \in AppK(us, t) : us[k].idx = i - 1}     \* those naming child number i

\* Which update's values child i must carry.  When the child's applicable updates are stored in time order
\* this is the latest one.  The property does not say which one wins when they are stored out of time
\* order, or for equal stamps, so the Judge accepts the last stored one and any with the maximal stamp.
Cand(us, t, i) ==
  LET N == NamedK(us, t, i) IN
  {k \in N : (\A k2 \in N : k2 <= k) \/ (\A k2 \in N : us[k2].time <= us[k].time)}
Flips(us, t, i) == Cardinality({k \in NamedK(us, t, i) : us[k].rev})
Sgn(n) == IF n % 2 = 0 THEN 1 ELSE -1

\* "changes exactly the children named by updates stamped at or before t (version, changeset, location,
\*  and an orientation flip for reversed way members)"
ExactJ(kind, c, us, t, r) ==
  InRange(c, us, t) =>
    /\ r.err = "none"
    /\ Len(r.children) = Len(c)
    /\ \A i \in 1 .. Len(c) :
         IF NamedK(us, t, i) = {} THEN r.children[i] = c[i]
         ELSE /\ \E k \in Cand(us, t, i) :
                   /\ r.children[i].ver = us[k].ver /\ r.children[i].cs = us[k].cs
                   /\ r.children[i].lat = us[k].lat /\ r.children[i].lon = us[k].lon
                 \* frame: every other field of the child (type, ref, role, node path, ...) is as before
              /\ DOMAIN r.children[i] = DOMAIN c[i]
              /\ \A fld \in DOMAIN c[i] \ {"ver", "cs", "lat", "lon", "ori"} : r.children[i][fld] = c[i][fld]
              /\ r.children[i].ori = IF kind = "relation" THEN c[i].ori * Sgn(Flips(us, t, i)) ELSE c[i].ori

\* "keeps the later updates pending in their original order"
PendingJ(c, us, t, r) ==
  InRange(c, us, t) => r.pending = (LET Late(u) == u.time > t IN SelectSeq(us, Late))

\* "reports an index beyond the child list as an error instead of touching memory": an error naming an
\* offending index, no crash, the child list keeps its length and no child that is not named by an update
\* stamped at or before t is touched.  The property is silent about how many of the other applicable
\* updates have been applied and about the pending list after an error, so is the Judge.
IndexErrJ(c, us, t, r) ==
  ~InRange(c, us, t) =>
    /\ r.err = "index"
    /\ r.erridx \in {us[k].idx : k \in {k2 \in AppK(us, t) : us[k2].idx >= Len(c)}}
    /\ Len(r.children) = Len(c)
    /\ \A i \in 1 .. Len(c) : NamedK(us, t, i) = {} => r.children[i] = c[i]

\* "For update lists in which each child's updates are in time order, applying up to t1 and then up to a
\*  later t2 equals applying up to t2 directly."  r12 = element after the two calls, r2 = after the direct call.
PerChildTimeOrdered(us) ==
  \A k1, k2 \in 1 .. Len(us) : (k1 < k2 /\ us[k1].idx = us[k2].idx) => us[k1].time <= us[k2].time
ComposeJ(c, us, t1, t2, r12, r2) ==
  (t1 <= t2 /\ PerChildTimeOrdered(us) /\ InRange(c, us, t2)) =>
     (r12.err = r2.err /\ r12.children = r2.children /\ r12.pending = r2.pending)

\* "For fully annotated ways, the geometry-at-time-t query equals the geometry obtained by applying the
\*  updates up to t on a copy, in whatever order the update list is stored."  lsAt = LineStringAt(t),
\*  lsApplied = LineString() of the copy after ApplyUpdatesUpTo(t).  Silent when the application fails.
GeomHyp(kind, c, us, t) == kind = "way" /\ FullyAnnotated(c) /\ InRange(c, us, t)
GeomJ(kind, c, us, t, lsAt, lsApplied) == GeomHyp(kind, c, us, t) => lsAt = lsApplied

\* The same law where the geometry-at-time query is consumed (the property's anchor "consumer of LineStringAt
\* when grouping multipolygon members"): every segment handed out for a member that is the way carries the
\* geometry of the applied copy, turned around exactly when the segment is flagged as reversed - for every
\* occurrence of the way in the member list.  segs = all observed segments [idx, ori, rev, line].
GroupJ(c, us, t, ms, segs, lsApplied) ==
  GeomHyp("way", c, us, t) =>
    \A j \in 1 .. Len(segs) :
       /\ segs[j].idx \in 0 .. Len(ms) - 1
       /\ ms[segs[j].idx + 1].tgt = "way"
       /\ segs[j].line = IF segs[j].rev THEN Rev(lsApplied) ELSE lsApplied

\* Query sequences.  A geometry-at-time query is a query: its answer may not depend on the queries made before
\* it on the same way object (in particular not on a query for a later time), so every answer of a sequence is
\* judged by GeomJ / GroupJ against the geometry of a copy taken before the sequence and updated up to the
\* query's own time.  q = [op, t]; ans = [line, outer, inner, applied, ...].
QueryJ(c, us, ms, q, ans) ==
  IF q.op = "lsat" THEN GeomJ("way", c, us, q.t, ans.line, ans.applied)
  ELSE GroupJ(c, us, q.t, ms, ans.outer \o ans.inner, ans.applied)
\* ... and read-only: after the queries the way is what it was (children and pending updates)
QueryPureJ(c, us, st) == st.children = c /\ st.pending = us

\* Known finding #9 (way.go:174): the geometry query stops at the first too-late update.  The failure
\* class: an applicable update is stored after a too-late one, and the observed geometry is exactly what
\* leaving the loop there produces.
LateBeforeApplicable(us, t) == \E k1, k2 \in 1 .. Len(us) : k1 < k2 /\ us[k1].time > t /\ us[k2].time <= t
KF_LineStringAtBreak(c, us, t, lsAt) == LateBeforeApplicable(us, t) /\ lsAt = LsAt(c, us, t, TRUE)

-----------------------------------------------------------------------------
(* STEP MACHINE - builds an input with generating actions, then runs the   *)
(* loops action by action: a1 = ApplyUpdatesUpTo(t1); a12 = then          *)
(* ApplyUpdatesUpTo(t2) on the same element; a2 = ApplyUpdatesUpTo(t2) on  *)
(* a fresh copy; g1/g2 = LineStringAt(t1)/(t2) on fresh copies (ways).     *)
VARIABLES kind, ch, us, t1, t2, pc, w, out
vars == <<kind, ch, us, t1, t2, pc, w, out>>

Nil == [nil |-> TRUE]
NoOut == [a1 |-> Nil, a12 |-> Nil, a2 |-> Nil, g1 |-> Nil, g2 |-> Nil]

Init == /\ kind \in Kinds
        /\ \E n \in 1 .. MaxN, un \in UnannChoices :
              /\ (kind = "relation" => un = 0) /\ un <= n
              /\ \E lc \in [1 .. n -> LocKinds] : ch = ChildrenOfL(kind, n, un, lc)
        /\ us = <<>> /\ t1 = 0 /\ t2 = 0 /\ pc = "build" /\ w = Nil /\ out = NoOut

AddUpdate == /\ pc = "build" /\ Len(us) < MaxL
             /\ \E c \in ChoiceL(kind, Len(ch), MaxT, LocKinds) : us' = Append(us, MkUpd(Len(us) + 1, c))
             /\ UNCHANGED <<kind, ch, t1, t2, pc, w, out>>
Choose == /\ pc = "build"
          /\ \E p \in Pairs(MaxT) : t1' = p[1] /\ t2' = p[2]
          /\ pc' = "a1" /\ w' = ApplyStart(ch)
          /\ UNCHANGED <<kind, ch, us, out>>

\* the list and the time the running apply phase works on
PhUs == IF pc = "a12" THEN out.a1.pending ELSE us
PhT == IF pc = "a1" THEN t1 ELSE t2
InApply == pc \in {"a1", "a12", "a2"}
Running == InApply /\ ~ApplyFinished(w, PhUs)

KeepPending == /\ Running /\ IsKeep(w, PhUs, PhT) /\ w' = ApplyStep(kind, w, PhUs, PhT)
               /\ UNCHANGED <<kind, ch, us, t1, t2, pc, out>>
ApplyOne == /\ Running /\ IsApply(w, PhUs, PhT) /\ w' = ApplyStep(kind, w, PhUs, PhT)
            /\ UNCHANGED <<kind, ch, us, t1, t2, pc, out>>
IndexError == /\ Running /\ IsIndexErr(w, PhUs, PhT) /\ w' = ApplyStep(kind, w, PhUs, PhT)
              /\ UNCHANGED <<kind, ch, us, t1, t2, pc, out>>
Return == /\ InApply /\ ApplyFinished(w, PhUs)
          /\ LET r == ApplyResult(w, PhUs) IN
             CASE pc = "a1"  -> (out' = [out EXCEPT !.a1 = r] /\ pc' = "a12" /\ w' = ApplyStart(r.children))
               [] pc = "a12" -> (out' = [out EXCEPT !.a12 = r] /\ pc' = "a2" /\ w' = ApplyStart(ch))
               [] pc = "a2"  -> (/\ out' = [out EXCEPT !.a2 = r]
                                 /\ (IF kind = "way" THEN pc' = "g1" /\ w' = LsStart(ch)
                                                     ELSE pc' = "done" /\ w' = Nil))
          /\ UNCHANGED <<kind, ch, us, t1, t2>>

GT == IF pc = "g1" THEN t1 ELSE t2
LsIter == /\ pc \in {"g1", "g2"} /\ ~LsFinished(w, us) /\ w' = LsStep(w, us, GT, BreakAtLate)
          /\ UNCHANGED <<kind, ch, us, t1, t2, pc, out>>
LsReturn == /\ pc \in {"g1", "g2"} /\ LsFinished(w, us)
            /\ (IF pc = "g1" THEN out' = [out EXCEPT !.g1 = Compress(ch, w.ls)] /\ pc' = "g2" /\ w' = LsStart(ch)
                ELSE out' = [out EXCEPT !.g2 = Compress(ch, w.ls)] /\ pc' = "done" /\ w' = Nil)
            /\ UNCHANGED <<kind, ch, us, t1, t2>>

Next == AddUpdate \/ Choose \/ KeepPending \/ ApplyOne \/ IndexError \/ Return \/ LsIter \/ LsReturn
Spec == Init /\ [][Next]_vars

-----------------------------------------------------------------------------
(* Design-level theorems checked by TLC: Model |= Judges                   *)
Done == pc = "done"
Exact1 == Done => ExactJ(kind, ch, us, t1, out.a1)
Exact2 == Done => ExactJ(kind, ch, us, t2, out.a2)
Pending1 == Done => PendingJ(ch, us, t1, out.a1)
Pending2 == Done => PendingJ(ch, us, t2, out.a2)
IndexErr1 == Done => IndexErrJ(ch, us, t1, out.a1)
IndexErr2 == Done => IndexErrJ(ch, us, t2, out.a2)
Compose == Done => ComposeJ(ch, us, t1, t2, out.a12, out.a2)
GeomAt1 == (Done /\ kind = "way") => GeomJ(kind, ch, us, t1, out.g1, LineString(out.a1.children))
GeomAt2 == (Done /\ kind = "way") => GeomJ(kind, ch, us, t2, out.g2, LineString(out.a2.children))
\* the folds used when judging recorded values are the step machine
FoldsAgree == Done => /\ out.a1 = Apply(kind, ch, us, t1)
                      /\ out.a2 = Apply(kind, ch, us, t2)
                      /\ out.a12 = Apply(kind, out.a1.children, out.a1.pending, t2)
                      /\ (kind = "way" => out.g1 = LsAt(ch, us, t1, BreakAtLate) /\ out.g2 = LsAt(ch, us, t2, BreakAtLate))
\* pending and UpTo partition the stored list
UpToSplit == Done => \A t \in {t1, t2} : Len(UpTo(us, t)) + Len(Apply(kind, ch, us, t).pending) = Len(us)
                                        \/ ~InRange(ch, us, t)
\* the known-finding predicate characterises the design-level failure exactly (checked with BreakAtLate = TRUE)
KFExact == (Done /\ kind = "way" /\ FullyAnnotated(ch)) =>
             /\ (~GeomJ(kind, ch, us, t1, out.g1, LineString(out.a1.children)) => LateBeforeApplicable(us, t1))
             /\ (~GeomJ(kind, ch, us, t2, out.g2, LineString(out.a2.children)) => LateBeforeApplicable(us, t2))

-----------------------------------------------------------------------------
(* INPUT SPACE as sets (used by UpdatesGen)                                *)
Case(k, c, l, p, T, o) == [kind |-> k, children |-> c, updates |-> l, t1 |-> p[1], t2 |-> p[2], tmax |-> T,
                           ts |-> o.ts, com |-> o.com]
\* every stored list of exactly l updates over n children and times 1..T, every t1 <= t2; Own(T) yields the
\* element's own time of one case (a fixed value, or a value drawn by TLC per case)
CasesExact(k, n, l, T, un, Own(_)) ==
  {Case(k, ChildrenOf(k, n, un), MkList(f), p, T, Own(T)) : f \in [1 .. l -> Choice(k, n, T)], p \in Pairs(T)}
\* the same with every own time
CasesExactOwn(k, n, l, T, un) ==
  {Case(k, ChildrenOf(k, n, un), MkList(f), p, T, o) :
      f \in [1 .. l -> Choice(k, n, T)], p \in Pairs(T), o \in OwnChoices(T)}
\* the same with every location symbol on every child and every update
CasesExactLoc(k, n, l, T, Own(_)) ==
  {Case(k, ChildrenOfL(k, n, 0, lc), MkList(f), p, T, Own(T)) :
      f \in [1 .. l -> ChoiceL(k, n, T, LocAll)], p \in Pairs(T), lc \in [1 .. n -> LocAll]}
\* kind "group": a way, a member list for mputil.Group and a sequence of queries [op, t] made one after the
\* other on the same way object: op "group" = mputil.Group(members, {way}, t), op "lsat" = way.LineStringAt(t);
\* the times may go up, down or repeat
QueryChoices(T) == [op : {"group", "lsat"}, t : 0 .. T]
GroupCase(n, l, T, un, f, qs, ms, o) ==
  [kind |-> "group", children |-> ChildrenOf("way", n, un), updates |-> MkList(f), t1 |-> qs[1].t, t2 |-> qs[1].t,
   tmax |-> T, ts |-> o.ts, com |-> o.com, members |-> ms, queries |-> qs]
\* every list of exactly l updates, every sequence of exactly q queries out of QS, every list of exactly m members out of MS
GroupCasesExact(n, l, T, m, MS, q, QS, Own(_)) ==
  {GroupCase(n, l, T, 0, f, qs, ms, Own(T)) :
      f \in [1 .. l -> Choice("way", n, T)], qs \in [1 .. q -> QS], ms \in [1 .. m -> MS]}
=============================================================================
