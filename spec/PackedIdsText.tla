----------------------------- MODULE PackedIdsText -----------------------------
(* C10 - textual form of identifiers, at token level.                         *)
(*                                                                            *)
(* A text is a sequence of tokens; the concrete string is the concatenation   *)
(* of the token texts (the harness only concatenates).  This module has       *)
(*   - the kind table (names, type-field values),                             *)
(*   - the Judge: Verdict(P, toks) for the three parsers P \in {obj,elem,feat}*)
(*     - exactly the listed property, see the comment at Verdict - and        *)
(*     Conforms(verdict, outcome),                                            *)
(*   - the Model: Go's ParseObjectID / ParseElementID / ParseFeatureID        *)
(*     transcribed at token level (strings.Split, strconv.ParseInt, the type  *)
(*     switch), checked against the Judge for every token string up to a      *)
(*     bound by PackedIdsTextMC.                                              *)
(* Identifier values are limb vectors (PackedIdsLimbs).                       *)
EXTENDS PackedIdsLimbs, Sequences, FiniteSets, TLC

(* ------------------------------ kinds ------------------------------------ *)
KindCode == [bounds |-> 8, node |-> 16, way |-> 32, relation |-> 48, changeset |-> 64, note |-> 80, user |-> 96]
KindNames      == DOMAIN KindCode
ElementKinds   == {"node", "way", "relation"}         \* have element and feature ids, and versions
NoVersionKinds == {"changeset", "note", "user"}       \* object ids only; Version() is 0
\* kinds for which an identifier of the given type exists
KindsOf(P) == IF P = "obj" THEN KindNames ELSE ElementKinds
Parsers == {"obj", "elem", "feat"}

(* ------------------------------ tokens ----------------------------------- *)
\* c: word | slash | colon | minus | plus | junk | dig.   For digit tokens: n = number of digits,
\* lz = starts with '0', small = value usable as a TLC integer (v), inr = value < 2^40 with limbs
\* <<r2, r1, r0>>, f64 = value fits an int64.
Tk(s, c) == [s |-> s, c |-> c, n |-> 0, lz |-> FALSE, small |-> FALSE, v |-> 0, inr |-> FALSE, limbs |-> <<0, 0, 0>>, f64 |-> FALSE]
Dg(s, v, n, lz) == [s |-> s, c |-> "dig", n |-> n, lz |-> lz, small |-> TRUE, v |-> v, inr |-> TRUE, limbs |-> SmallRefLimbs(v), f64 |-> TRUE]
Bg(s, n, inr, limbs, f64) == [s |-> s, c |-> "dig", n |-> n, lz |-> FALSE, small |-> FALSE, v |-> 0, inr |-> inr, limbs |-> limbs, f64 |-> f64]

Tokens ==
  {Tk(k, "word") : k \in KindNames \cup {"zzz", "Node", "nodes", "nod", "e", "element"}}
  \cup {Tk("/", "slash"), Tk(":", "colon"), Tk("-", "minus"), Tk("+", "plus")}
  \cup {Tk(j, "junk") : j \in {" ", ".", "_", ",", "#"}}
  \cup {Dg("0", 0, 1, TRUE), Dg("1", 1, 1, FALSE), Dg("2", 2, 1, FALSE), Dg("3", 3, 1, FALSE), Dg("7", 7, 1, FALSE),
        Dg("00", 0, 2, TRUE), Dg("07", 7, 2, TRUE), Dg("12", 12, 2, FALSE),
        Dg("65535", 65535, 5, FALSE), Dg("65536", 65536, 5, FALSE), Dg("65537", 65537, 5, FALSE),
        Dg("2147483647", 2147483647, 10, FALSE)}
  \cup {Bg("4294967296", 10, TRUE, <<1, 0, 0>>, TRUE),                     \* 2^32
        Bg("549755813888", 12, TRUE, <<128, 0, 0>>, TRUE),                 \* 2^39: reference bit 39
        Bg("1099511627775", 13, TRUE, <<255, 65535, 65535>>, TRUE),        \* 2^40 - 1: largest reference
        Bg("1099511627776", 13, FALSE, <<0, 0, 0>>, TRUE),                 \* 2^40: out of range
        Bg("9223372036854775807", 19, FALSE, <<0, 0, 0>>, TRUE),           \* 2^63 - 1
        Bg("9223372036854775808", 19, FALSE, <<0, 0, 0>>, FALSE),          \* 2^63: not an int64
        Bg("99999999999999999999", 20, FALSE, <<0, 0, 0>>, FALSE)}

TokOf(s) == CHOOSE t \in Tokens : t.s = s
ASSUME \A t1, t2 \in Tokens : t1.s = t2.s => t1 = t2

RECURSIVE Text(_)
Text(seg) == IF seg = << >> THEN "" ELSE seg[1].s \o Text(Tail(seg))

Count(seg, cls) == Cardinality({i \in 1 .. Len(seg) : seg[i].c = cls})
FirstOf(seg, cls) == CHOOSE i \in 1 .. Len(seg) : seg[i].c = cls /\ \A j \in 1 .. i - 1 : seg[j].c # cls

(* ------------------------- reading a number ------------------------------ *)
AllDig(seg) == Len(seg) > 0 /\ \A i \in 1 .. Len(seg) : seg[i].c = "dig"

RECURSIVE Pow10(_)
Pow10(n) == IF n = 0 THEN 1 ELSE 10 * Pow10(n - 1)
RECURSIVE SegVal(_, _)
SegVal(digs, acc) == IF digs = << >> THEN acc ELSE SegVal(Tail(digs), acc * Pow10(digs[1].n) + digs[1].v)
RECURSIVE TotalDigits(_)
TotalDigits(digs) == IF digs = << >> THEN 0 ELSE digs[1].n + TotalDigits(Tail(digs))

\* magnitude of a non-empty all-digit segment: known = "established to be below 2^40", with its limbs
Magnitude(digs) ==
  IF Len(digs) = 1 THEN [known |-> digs[1].inr, limbs |-> digs[1].limbs]
  ELSE IF (\A i \in 1 .. Len(digs) : digs[i].small) /\ TotalDigits(digs) <= 9
       THEN [known |-> TRUE, limbs |-> SmallRefLimbs(SegVal(digs, 0))]
       ELSE [known |-> FALSE, limbs |-> <<0, 0, 0>>]

\* shape of a segment read as a decimal number:
\*   canon  - digits without sign and without a superfluous leading zero (what %d prints for n >= 0)
\*   digits - digits with leading zeros;  plus / minus - one sign, then digits;  nan - anything else
NumShape(seg) ==
  IF AllDig(seg) THEN (IF seg[1].lz /\ ~(Len(seg) = 1 /\ seg[1].n = 1) THEN "digits" ELSE "canon")
  ELSE IF Len(seg) >= 2 /\ seg[1].c \in {"plus", "minus"} /\ AllDig(Tail(seg)) THEN seg[1].c
  ELSE "nan"

Reading(seg) ==
  LET sh == NumShape(seg) IN
  IF sh = "nan" THEN [shape |-> sh, known |-> FALSE, limbs |-> <<0, 0, 0>>, neg |-> FALSE]
  ELSE LET m == Magnitude(IF sh \in {"plus", "minus"} THEN Tail(seg) ELSE seg)
       IN [shape |-> sh, known |-> m.known, limbs |-> m.limbs,
           neg |-> sh = "minus" /\ ~(m.known /\ m.limbs = <<0, 0, 0>>)]

(* ------------------------------ the Judge -------------------------------- *)
Garbage == <<-1, -1, -1, -1>>
NoRef   == <<0, 0, 0, 0>>
Rej(why) == [d |-> "reject", kind |-> "", ref |-> NoRef, ver |-> 0, id |-> Garbage, why |-> why]
Sil(why) == [d |-> "silent", kind |-> "", ref |-> NoRef, ver |-> 0, id |-> Garbage, why |-> why]
\* d = accept | ifok: the identifier the text denotes, as (kind, ref, ver) - what the Judge compares with
\* the decoded outcome - and as the limb vector of the layout (id, used by the Model-conformance pass only)
Den(d, kind, r, ver, why) ==
  [d |-> d, kind |-> kind, ref |-> <<0, r[1], r[2], r[3]>>, ver |-> ver,
   id |-> PackL(KindCode[kind], r[1], r[2], r[3], ver), why |-> why]

(* Verdict(P, toks): what the property demands of parser P on the text toks.  *)
(*   reject - "text that does not have the kind/ref[:version] shape or names  *)
(*            an unknown kind is rejected with an error": not exactly one     *)
(*            '/', a kind text that is not a kind of this identifier type,    *)
(*            more than one ':', a reference that is not a number under any   *)
(*            reading, a version that is neither a number nor '-'.            *)
(*   accept - "the textual form of an identifier parses back to the same      *)
(*            identifier": the text is in the image of String() (canonical    *)
(*            numbers, the form the identifier type prints) for an in-range   *)
(*            identifier; it must parse, to exactly that identifier.          *)
(*   ifok   - the text has the shape and denotes an in-range identifier but   *)
(*            is not what String() prints (no ":version" part, ":0", leading  *)
(*            zeros, '+'): the property does not say it must be accepted,     *)
(*            only "an error rather than a wrong id" - if accepted, the id    *)
(*            must be the denoted one.                                        *)
(*   silent - the property says nothing: reference or version outside         *)
(*            [0,2^40) x [0,2^16) (incl. negative numbers), a version on a    *)
(*            kind that has none, a reference on bounds.                      *)
Verdict(P, toks) ==
  IF Count(toks, "slash") # 1 THEN Rej("not exactly one '/'")
  ELSE
  LET i       == FirstOf(toks, "slash")
      kname   == Text(SubSeq(toks, 1, i - 1))
      rest    == SubSeq(toks, i + 1, Len(toks))
      ncol    == Count(rest, "colon")
  IN
  IF kname \notin KindsOf(P) THEN Rej("kind is not a kind of this identifier type")
  ELSE IF ncol > 1 THEN Rej("more than one ':'")
  ELSE
  LET hasVer == ncol = 1
      j      == IF hasVer THEN FirstOf(rest, "colon") ELSE Len(rest) + 1
      refSeg == SubSeq(rest, 1, j - 1)
      verSeg == SubSeq(rest, j + 1, Len(rest))
      rr     == Reading(refSeg)
      dash   == hasVer /\ Len(verSeg) = 1 /\ verSeg[1].c = "minus"
      vr     == Reading(verSeg)
  IN
  IF rr.shape = "nan" THEN Rej("reference is not a number")
  ELSE IF hasVer /\ ~dash /\ vr.shape = "nan" THEN Rej("version is neither a number nor '-'")
  ELSE
  LET verIn == ~hasVer \/ dash \/ (vr.known /\ ~vr.neg /\ vr.limbs[1] = 0 /\ vr.limbs[2] = 0)
      ver   == IF ~hasVer \/ dash THEN 0 ELSE vr.limbs[3]
  IN
  IF ~(rr.known /\ ~rr.neg /\ verIn) THEN Sil("reference or version not established to be in range")
  ELSE IF P = "obj" /\ kname \in NoVersionKinds /\ ver # 0 THEN Sil("version on a kind without versions")
  ELSE IF P = "obj" /\ kname = "bounds" /\ (rr.limbs # <<0, 0, 0>> \/ ver # 0) THEN Sil("reference or version on bounds")
  ELSE
  LET image == IF P = "feat" THEN rr.shape = "canon" /\ ~hasVer
               ELSE rr.shape = "canon" /\ hasVer /\ (dash \/ (vr.shape = "canon" /\ ver # 0))
  IN Den(IF image THEN "accept" ELSE "ifok", kname, rr.limbs, IF P = "feat" THEN 0 ELSE ver,
         IF image THEN "textual form of an identifier" ELSE "has the shape, not the printed form")

\* outcome = [err |-> BOOLEAN, id |-> limbs, dec |-> [type, ref, ver]]: the parser's error flag, the id it
\* returned and that id decoded by the identifier's own Type / Ref / Version (a separate clause of the
\* property makes those exact, so "the same identifier" is stated on the decoded triple - independent of the layout)
Denotes(out, vd) == out.dec.type = vd.kind /\ out.dec.ref = vd.ref /\ out.dec.ver = vd.ver
Conforms(vd, out) ==
  CASE vd.d = "reject" -> out.err
    [] vd.d = "accept" -> ~out.err /\ Denotes(out, vd)
    [] vd.d = "ifok"   -> out.err \/ Denotes(out, vd)
    [] vd.d = "silent" -> TRUE
\* Model conformance (not the property): an accepted in-range text yields the limb vector of the layout
ConformsLayout(vd, out) == (vd.d \in {"accept", "ifok"} /\ ~out.err) => out.id = vd.id

(* ------------------------------ the Model -------------------------------- *)
(* Go's parsers, statement by statement, on token sequences.                  *)
\* decoding an id by Type / Ref / Version on the layout ("panic" for a type field that is no kind)
DecodeL(id) ==
  IF id = Garbage THEN [type |-> "?", ref |-> Garbage, ver |-> -1]
  ELSE [type |-> (IF \E k \in KindNames : KindCode[k] = CodeL(id) THEN CHOOSE k \in KindNames : KindCode[k] = CodeL(id) ELSE "panic"),
        ref |-> RefL(id), ver |-> VerL(id)]
Err == [err |-> TRUE, id |-> <<0, 0, 0, 0>>, dec |-> [type |-> "", ref |-> NoRef, ver |-> 0]]       \* "return 0, fmt.Errorf(...)"
Ok(id) == [err |-> FALSE, id |-> id, dec |-> DecodeL(id)]

\* strings.Split(s, sep): number of separators + 1 pieces
RECURSIVE I_Split(_, _)
I_Split(seg, cls) ==
  IF Count(seg, cls) = 0 THEN <<seg>>
  ELSE LET i == FirstOf(seg, cls) IN <<SubSeq(seg, 1, i - 1)>> \o I_Split(SubSeq(seg, i + 1, Len(seg)), cls)

\* strconv.ParseInt(s, 10, 64): "" -> error; one optional leading sign; then one or more digits,
\* nothing else; value must fit an int64.  (Multi-token digit strings beyond 9 digits: magnitude unknown.)
NumErr == [err |-> TRUE, neg |-> FALSE, known |-> FALSE, limbs |-> <<0, 0, 0>>]
I_ParseInt(seg) ==
  IF seg = << >> THEN NumErr
  ELSE LET signed == seg[1].c \in {"plus", "minus"}
           digs   == IF signed THEN Tail(seg) ELSE seg
       IN IF ~AllDig(digs) THEN NumErr
          ELSE IF \E i \in 1 .. Len(digs) : ~digs[i].f64 THEN NumErr        \* out of range
          ELSE LET m == Magnitude(digs)
               IN [err |-> FALSE, known |-> m.known, limbs |-> m.limbs,
                   neg |-> seg[1].c = "minus" /\ ~(m.known /\ m.limbs = <<0, 0, 0>>)]
NumZero == [err |-> FALSE, neg |-> FALSE, known |-> TRUE, limbs |-> <<0, 0, 0>>]

\* mask | (id << versionBits): inside [0, 2^40) this is the layout; outside it wraps into the type bits
\* and the sign (not modelled: Garbage - the property does not speak about such references)
I_Shifted(kname, ref) ==
  IF ref.known /\ ~ref.neg THEN PackL(KindCode[kname], ref.limbs[1], ref.limbs[2], ref.limbs[3], 0) ELSE Garbage

\* Type.FeatureID(ref) (feature.go:49-59)
I_TypeFeatureID(kname, ref) ==
  IF kname \in {"node", "way", "relation"} THEN Ok(I_Shifted(kname, ref)) ELSE Err

\* FeatureID.ElementID(v) = id | (versionMask & v) (feature.go:110): the low 16 bits of v, two's complement
I_FeatElementID(fid, v) ==
  IF fid = Garbage \/ ~v.known THEN Garbage
  ELSE ElementL(fid, IF v.neg THEN (L - v.limbs[3]) % L ELSE v.limbs[3])

\* Type.objectID(ref, v) (feature.go:26-46)
I_objectID(kname, ref, v) ==
  CASE kname \in {"node", "way", "relation"} -> Ok(I_FeatElementID(I_Shifted(kname, ref), v))
    [] kname \in {"changeset", "note", "user"} -> Ok(I_Shifted(kname, ref))
    [] kname = "bounds" -> Ok(PackL(KindCode["bounds"], 0, 0, 0, 0))
    [] OTHER -> Err

\* object.go:57-95 / element.go:96-135 (they differ in the length test and in the final construction)
I_ParseWithVersion(P, toks) ==
  LET parts == I_Split(toks, "slash") IN
  IF Len(parts) # 2 THEN Err
  ELSE LET parts2 == I_Split(parts[2], "colon") IN
  IF (P = "obj" /\ (Len(parts2) = 0 \/ Len(parts2) > 2)) \/ (P = "elem" /\ Len(parts2) # 1 /\ Len(parts2) # 2) THEN Err
  ELSE LET ref == I_ParseInt(parts2[1]) IN
  IF ref.err THEN Err
  ELSE LET hasv == Len(parts2) = 2 /\ Text(parts2[2]) # "-"
           v    == IF hasv THEN I_ParseInt(parts2[2]) ELSE NumZero
  IN
  IF v.err THEN Err
  ELSE IF P = "obj" THEN I_objectID(Text(parts[1]), ref, v)
  ELSE LET f == I_TypeFeatureID(Text(parts[1]), ref) IN
       IF f.err THEN Err ELSE Ok(I_FeatElementID(f.id, v))

\* feature.go:159-177
I_ParseFeatureID(toks) ==
  LET parts == I_Split(toks, "slash") IN
  IF Len(parts) # 2 THEN Err
  ELSE LET n == I_ParseInt(parts[2]) IN
  IF n.err THEN Err ELSE I_TypeFeatureID(Text(parts[1]), n)

I_Parse(P, toks) == IF P = "feat" THEN I_ParseFeatureID(toks) ELSE I_ParseWithVersion(P, toks)

\* Model |= Judge on one text
TextConformsAt(toks) ==
  \A P \in Parsers : Conforms(Verdict(P, toks), I_Parse(P, toks)) /\ ConformsLayout(Verdict(P, toks), I_Parse(P, toks))
=============================================================================
