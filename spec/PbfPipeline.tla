---------------------------- MODULE PbfPipeline ----------------------------
(***************************************************************************)
(* osmpbf decoder pipeline: decode.go Start / reader / workers /           *)
(* serializer / Next / Close and scanner.go Scan / Header / Err / Close.   *)
(*                                                                         *)
(* MODEL.  One action per hook-delimited step of each goroutine (the       *)
(* stretch between two yield points `vhook("x.y?")` of the build-tag       *)
(* guarded instrumentation), so that recorded executions of the real code  *)
(* can be validated against it event by event (PbfTrace.tla) and its       *)
(* behaviours can be forced through the real goroutines (PbfGen.tla).      *)
(* It models what the code is meant to do; the two places where the        *)
(* pinned upstream code deviated are named booleans of the configuration:  *)
(*   stopOnCancel = FALSE : reader loop `ctx.Err()==nil || err==nil`       *)
(*   sepErr       = FALSE : terminal context error stored in dec.cData.Err *)
(*                          by the serializer goroutine (lost / racy)      *)
(*   eofCtx       = FALSE : a clean end observed by an in-flight Scan      *)
(*                          after the caller's context was cancelled is    *)
(*                          reported as success although blocks may have   *)
(*                          been dropped on ctx.Done                       *)
(*                                                                         *)
(* JUDGES.  (a) state invariants / temporal properties on the Model, and   *)
(* (b) RunOK(run): the listed properties C02 C06 C07 C09 stated over the   *)
(* API-level history of one scan (calls, returns, stops), which is what    *)
(* TLC evaluates on histories recorded from the real code.  The Model      *)
(* carries the same history in `hist` so TLC also checks Model |= RunOK.   *)
(***************************************************************************)
EXTENDS Integers, Sequences, FiniteSets, TLC

CONSTANT Configs
\* a configuration is a record
\*  [n, cap            : decoder count, capacity of the per-worker queues (0 = unbuffered)
\*   blocks            : sequence of [k |-> "data"|"bad"|"type", n |-> objects in the block]
\*   endkind           : "eof" (clean end on a block boundary) | "trunc" (cut inside a block)
\*   hdr               : "ok" | "none" (first block is a data block) | "trunc" | "feature" | "empty"
\*   stopOnCancel, sepErr, eofCtx : see above
\*   allowCancel, allowClose, allowHeader : which API / environment actions are explored
\*   maxErr            : how many Err() observations are added to the history]

Nil == "nil"

VARIABLES
  cfg,
  started,                       \* Start() has run (first Scan or Header)
  cancelled, parentCancelled,    \* internal context done / caller's context cancelled
  rpc, ri, rpos, rerr, rpair, readsAfterStop,
  inq, inClosed,
  wpc, wcur,
  outq, outClosed,
  spc, sj, scur, tErr,
  serq, serClosed,
  cpc, cData, cIndex, pOff, cOff, sErr, closed,
  delivered, lastScan,           \* observation: objects returned so far, result of the last Scan
  hist                           \* API-level history (see RunOK)

vars == << cfg, started, cancelled, parentCancelled, rpc, ri, rpos, rerr, rpair, readsAfterStop,
           inq, inClosed, wpc, wcur, outq, outClosed, spc, sj, scur, tErr,
           serq, serClosed, cpc, cData, cIndex, pOff, cOff, sErr, closed,
           delivered, lastScan, hist >>

\* everything except the API-side variables that C_* actions change
pipeVars == << rpc, ri, rpos, rerr, rpair, readsAfterStop, inq, inClosed, wpc, wcur, outq, outClosed,
               spc, sj, scur, tErr, serq, serClosed >>

N == cfg.n
Cap == cfg.cap
Blocks == cfg.blocks
NB == Len(Blocks)
Workers == 0 .. N-1
HasHeader == cfg.hdr # "none"

Off(k) == IF HasHeader THEN k ELSE k - 1      \* abstract byte offset of data block k (header = offset 0)
Objs(k) == [j \in 1 .. Blocks[k].n |-> <<k, j>>]
ZeroPair == [off |-> 0, objs |-> << >>, err |-> Nil]

InitRest ==
  /\ started = FALSE
  /\ cancelled = FALSE /\ parentCancelled = FALSE
  /\ rpc = "off" /\ ri = 0 /\ rpos = 1 /\ rerr = Nil /\ rpair = [blk |-> 0, err |-> Nil]
  /\ readsAfterStop = 0
  /\ inq = [w \in Workers |-> << >>] /\ inClosed = FALSE
  /\ wpc = [w \in Workers |-> "off"] /\ wcur = [w \in Workers |-> ZeroPair]
  /\ outq = [w \in Workers |-> << >>] /\ outClosed = [w \in Workers |-> FALSE]
  /\ spc = "off" /\ sj = 0 /\ scur = ZeroPair /\ tErr = Nil
  /\ serq = << >> /\ serClosed = FALSE
  /\ cpc = "idle" /\ cData = ZeroPair /\ cIndex = 0
  /\ pOff = 0 /\ cOff = 0 /\ sErr = Nil /\ closed = FALSE /\ delivered = << >>
  /\ lastScan = "none" /\ hist = << >>

Init == cfg \in Configs /\ InitRest

(* a send on a channel of capacity Cap (0 = rendezvous: receiver must be parked) *)
CanSendIn(w)  == IF Cap = 0 THEN inq[w] = << >> /\ wpc[w] = "recv" ELSE Len(inq[w]) < Cap
CanSendOut(w) == IF Cap = 0 THEN outq[w] = << >> /\ spc = "recv" /\ sj = w ELSE Len(outq[w]) < Cap

(* ------------------------------ reader ---------------------------------- *)
ReadBlock(k) ==
  IF k > NB THEN [blk |-> 0, err |-> cfg.endkind]
  ELSE IF Blocks[k].k = "type" THEN [blk |-> 0, err |-> "type"]
  ELSE [blk |-> k, err |-> Nil]

R_First ==   \* restart: the first (data) block read by Start is pushed on input 0 without select
  /\ rpc = "first" /\ CanSendIn(0)
  /\ inq' = [inq EXCEPT ![0] = Append(@, [blk |-> 1, err |-> Nil])]
  /\ ri' = 1 % N /\ rpos' = 2 /\ rpc' = "loop"
  /\ UNCHANGED << cfg, started, cancelled, parentCancelled, rerr, rpair, readsAfterStop, inClosed, wpc, wcur, outq,
                  outClosed, spc, sj, scur, tErr, serq, serClosed, cpc, cData, cIndex,
                  pOff, cOff, sErr, closed, delivered, lastScan, hist >>

LoopCond == IF cfg.stopOnCancel THEN (~cancelled /\ rerr = Nil)
                                ELSE (~cancelled \/ rerr = Nil)

R_Read ==    \* loop condition holds: read the next file block
  /\ rpc = "loop" /\ LoopCond
  /\ LET p == ReadBlock(rpos) IN
       /\ rpair' = p /\ rerr' = p.err
       /\ rpos' = IF p.err = Nil THEN rpos + 1 ELSE rpos
       /\ readsAfterStop' = IF cancelled /\ p.err = Nil THEN readsAfterStop + 1 ELSE readsAfterStop
  /\ rpc' = "send"
  /\ UNCHANGED << cfg, started, cancelled, parentCancelled, ri, inq, inClosed, wpc, wcur, outq, outClosed, spc, sj, scur, tErr,
                  serq, serClosed, cpc, cData, cIndex, pOff, cOff, sErr, closed,
                  delivered, lastScan, hist >>

R_Exit ==    \* loop condition fails: deferred close of all inputs
  /\ rpc = "loop" /\ ~LoopCond
  /\ inClosed' = TRUE /\ rpc' = "done"
  /\ UNCHANGED << cfg, started, cancelled, parentCancelled, ri, rpos, rerr, rpair, readsAfterStop, inq, wpc, wcur, outq,
                  outClosed, spc, sj, scur, tErr, serq, serClosed, cpc, cData, cIndex, pOff, cOff, sErr, closed,
                  delivered, lastScan, hist >>

R_Sent ==
  /\ rpc = "send" /\ CanSendIn(ri)
  /\ inq' = [inq EXCEPT ![ri] = Append(@, rpair)]
  /\ ri' = (ri + 1) % N /\ rpc' = "loop"
  /\ UNCHANGED << cfg, started, cancelled, parentCancelled, rpos, rerr, rpair, readsAfterStop, inClosed, wpc, wcur, outq,
                  outClosed, spc, sj, scur, tErr, serq, serClosed, cpc, cData, cIndex,
                  pOff, cOff, sErr, closed, delivered, lastScan, hist >>

R_Dropped ==
  /\ rpc = "send" /\ cancelled
  /\ ri' = (ri + 1) % N /\ rpc' = "loop"
  /\ UNCHANGED << cfg, started, cancelled, parentCancelled, rpos, rerr, rpair, readsAfterStop, inq, inClosed, wpc, wcur, outq,
                  outClosed, spc, sj, scur, tErr, serq, serClosed, cpc, cData, cIndex,
                  pOff, cOff, sErr, closed, delivered, lastScan, hist >>

(* ------------------------------ workers --------------------------------- *)
Decode(p) ==
  IF p.err # Nil THEN [off |-> 0, objs |-> << >>, err |-> p.err]
  ELSE IF Blocks[p.blk].k = "bad" THEN [off |-> Off(p.blk), objs |-> << >>, err |-> "decode"]
  ELSE [off |-> Off(p.blk), objs |-> Objs(p.blk), err |-> Nil]

W_Got(w) ==
  /\ wpc[w] = "recv" /\ inq[w] # << >>
  /\ wcur' = [wcur EXCEPT ![w] = Decode(Head(inq[w]))]
  /\ inq' = [inq EXCEPT ![w] = Tail(@)]
  /\ wpc' = [wpc EXCEPT ![w] = "send"]
  /\ UNCHANGED << cfg, started, cancelled, parentCancelled, rpc, ri, rpos, rerr, rpair, readsAfterStop, inClosed, outq,
                  outClosed, spc, sj, scur, tErr, serq, serClosed, cpc, cData, cIndex, pOff, cOff,
                  sErr, closed, delivered, lastScan, hist >>

W_InClosed(w) ==
  /\ wpc[w] = "recv" /\ inq[w] = << >> /\ inClosed
  /\ outClosed' = [outClosed EXCEPT ![w] = TRUE]
  /\ wpc' = [wpc EXCEPT ![w] = "done"]
  /\ UNCHANGED << cfg, started, cancelled, parentCancelled, rpc, ri, rpos, rerr, rpair, readsAfterStop, inq, inClosed, wcur, outq,
                  spc, sj, scur, tErr, serq, serClosed, cpc, cData, cIndex, pOff, cOff,
                  sErr, closed, delivered, lastScan, hist >>

W_Sent(w) ==
  /\ wpc[w] = "send" /\ CanSendOut(w)
  /\ outq' = [outq EXCEPT ![w] = Append(@, wcur[w])]
  /\ wpc' = [wpc EXCEPT ![w] = "recv"]
  /\ UNCHANGED << cfg, started, cancelled, parentCancelled, rpc, ri, rpos, rerr, rpair, readsAfterStop, inq, inClosed, wcur,
                  outClosed, spc, sj, scur, tErr, serq, serClosed, cpc, cData, cIndex,
                  pOff, cOff, sErr, closed, delivered, lastScan, hist >>

W_Dropped(w) ==
  /\ wpc[w] = "send" /\ cancelled
  /\ wpc' = [wpc EXCEPT ![w] = "recv"]
  /\ UNCHANGED << cfg, started, cancelled, parentCancelled, rpc, ri, rpos, rerr, rpair, readsAfterStop, inq, inClosed, wcur, outq,
                  outClosed, spc, sj, scur, tErr, serq, serClosed, cpc, cData, cIndex,
                  pOff, cOff, sErr, closed, delivered, lastScan, hist >>

(* ----------------------------- serializer ------------------------------- *)
S_Got ==
  /\ spc = "recv"
  /\ \/ /\ outq[sj] # << >>
        /\ scur' = Head(outq[sj]) /\ outq' = [outq EXCEPT ![sj] = Tail(@)]
     \/ /\ outq[sj] = << >> /\ outClosed[sj]   \* closed channel yields the zero value
        /\ scur' = ZeroPair /\ UNCHANGED outq
  /\ spc' = "send"
  /\ UNCHANGED << cfg, started, cancelled, parentCancelled, rpc, ri, rpos, rerr, rpair, readsAfterStop, inq, inClosed, wpc, wcur,
                  outClosed, sj, tErr, serq, serClosed, cpc, cData, cIndex, pOff, cOff, sErr, closed,
                  delivered, lastScan, hist >>

S_Done ==   \* ctx.Done observed in either select; the serializer records the ctx error and returns
  /\ spc \in {"recv", "send"} /\ cancelled
  /\ IF cfg.sepErr THEN tErr' = "canceled" /\ UNCHANGED cData
                   ELSE cData' = [cData EXCEPT !.err = "canceled"] /\ UNCHANGED tErr
  /\ spc' = "exit"
  /\ UNCHANGED << cfg, started, cancelled, parentCancelled, rpc, ri, rpos, rerr, rpair, readsAfterStop, inq, inClosed, wpc, wcur,
                  outq, outClosed, sj, scur, serq, serClosed, cpc, cIndex, pOff, cOff, sErr, closed,
                  delivered, lastScan, hist >>

S_Sent ==
  /\ spc = "send" /\ Len(serq) < N
  /\ serq' = Append(serq, scur)
  /\ IF scur.err # Nil THEN spc' = "exit" /\ UNCHANGED sj
                       ELSE sj' = (sj + 1) % N /\ spc' = "recv"
  /\ UNCHANGED << cfg, started, cancelled, parentCancelled, rpc, ri, rpos, rerr, rpair, readsAfterStop, inq, inClosed, wpc, wcur, outq,
                  outClosed, scur, tErr, serClosed, cpc, cData, cIndex, pOff, cOff, sErr, closed,
                  delivered, lastScan, hist >>

S_Exit ==   \* deferred: close(serializer); cancel()
  /\ spc = "exit"
  /\ spc' = "done" /\ serClosed' = TRUE /\ cancelled' = TRUE
  /\ UNCHANGED << cfg, started, parentCancelled, rpc, ri, rpos, rerr, rpair, readsAfterStop, inq, inClosed, wpc, wcur, outq,
                  outClosed, sj, scur, tErr, serq, cpc, cData, cIndex, pOff, cOff, sErr, closed,
                  delivered, lastScan, hist >>

(* ------------------------------ consumer -------------------------------- *)
AllDone == ~started \/ (rpc \in {"done", "off"} /\ spc \in {"done", "off"} /\ \A w \in Workers : wpc[w] \in {"done", "off"})

HdrErr == CASE cfg.hdr = "trunc"   -> "trunc"
            [] cfg.hdr = "feature" -> "feature"
            [] cfg.hdr = "empty"   -> "eof"
            [] OTHER               -> Nil

\* decoder.Start: read the first file block; if that fails no goroutine is started
StartPipe ==
  /\ started' = TRUE
  /\ IF HdrErr # Nil
       THEN UNCHANGED pipeVars
       ELSE /\ rpc' = (IF cfg.hdr = "none" THEN "first" ELSE "loop")
            /\ wpc' = [w \in Workers |-> "recv"]
            /\ spc' = "recv"
            /\ UNCHANGED << ri, rpos, rerr, rpair, readsAfterStop, inq, inClosed, wcur, outq, outClosed, sj, scur, tErr, serq, serClosed >>

\* tail of decoder.Next(): return the next object of the current block
Deliver(cd, idx) ==
  /\ cIndex' = idx + 1
  /\ sErr' = cd.err
  /\ IF cd.err = Nil
       THEN delivered' = Append(delivered, cd.objs[idx + 1]) /\ lastScan' = "true"
       ELSE UNCHANGED delivered /\ lastScan' = "false"
  /\ cpc' = "idle"

C_Call ==   \* Scan(): Start if needed, precheck, then Next() up to its first channel receive
  /\ cpc = "idle"
  /\ IF started THEN UNCHANGED << started, pipeVars >> ELSE StartPipe
  /\ LET e == IF started THEN sErr ELSE HdrErr IN
     IF e # Nil \/ closed \/ parentCancelled
       THEN /\ lastScan' = "false" /\ sErr' = e
            /\ hist' = hist \o << [op |-> "call"], [op |-> "ret", ok |-> FALSE, blk |-> 0, idx |-> 0, cur |-> cOff, prev |-> pOff] >>
            /\ UNCHANGED << cpc, cIndex, delivered >>
       ELSE IF cIndex < Len(cData.objs)
              THEN /\ Deliver(cData, cIndex)
                   /\ hist' = hist \o << [op |-> "call"], [op |-> "ret", ok |-> (cData.err = Nil), blk |-> cData.objs[cIndex+1][1],
                                                           idx |-> cData.objs[cIndex+1][2], cur |-> cOff, prev |-> pOff] >>
              ELSE /\ cpc' = "recv" /\ hist' = Append(hist, [op |-> "call"])
                   /\ UNCHANGED << lastScan, cIndex, sErr, delivered >>
  /\ UNCHANGED << cfg, cancelled, parentCancelled, cData, pOff, cOff, closed >>

C_Header == \* Header(): Start if needed
  /\ cfg.allowHeader /\ cpc = "idle" /\ ~started
  /\ StartPipe /\ sErr' = HdrErr
  /\ hist' = Append(hist, [op |-> "hdr", class |-> HdrErr])
  /\ UNCHANGED << cfg, cancelled, parentCancelled, cpc, cData, cIndex, pOff, cOff, closed, delivered, lastScan >>

TermErr == IF cData.err # Nil THEN cData.err
           ELSE IF cfg.sepErr /\ tErr # Nil THEN tErr ELSE "eof"
\* Scan(): a clean end seen while the caller's context is already cancelled is not reported as success
\* (blocks may have been dropped on ctx.Done) -- intended design, eofCtx = FALSE is the pinned code
EndErr(e) == IF e = "eof" /\ cfg.eofCtx /\ parentCancelled THEN "canceled" ELSE e

C_Got ==   \* cd, ok := <-dec.serializer and everything up to the next receive or return
  /\ cpc = "recv"
  /\ \/ /\ serq # << >>
        /\ LET cd == Head(serq) IN
           /\ serq' = Tail(serq)
           /\ IF cd.err = "eof"
                THEN /\ sErr' = EndErr(IF cData.err # Nil THEN cData.err ELSE "eof")
                     /\ cpc' = "idle" /\ lastScan' = "false"
                     /\ hist' = Append(hist, [op |-> "ret", ok |-> FALSE, blk |-> 0, idx |-> 0, cur |-> cOff, prev |-> pOff])
                     /\ UNCHANGED << cData, cIndex, pOff, cOff, delivered >>
                ELSE /\ pOff' = cOff /\ cOff' = cd.off /\ cData' = cd
                     /\ IF Len(cd.objs) > 0
                          THEN /\ Deliver(cd, 0)
                               /\ hist' = Append(hist, [op |-> "ret", ok |-> (cd.err = Nil), blk |-> cd.objs[1][1], idx |-> cd.objs[1][2],
                                                        cur |-> cd.off, prev |-> cOff])
                          ELSE cIndex' = 0 /\ UNCHANGED << cpc, sErr, delivered, lastScan, hist >>
     \/ /\ serq = << >> /\ serClosed
        /\ sErr' = EndErr(TermErr)
        /\ cpc' = "idle" /\ lastScan' = "false"
        /\ hist' = Append(hist, [op |-> "ret", ok |-> FALSE, blk |-> 0, idx |-> 0, cur |-> cOff, prev |-> pOff])
        /\ UNCHANGED << serq, cData, cIndex, pOff, cOff, delivered >>
  /\ UNCHANGED << cfg, started, cancelled, parentCancelled, rpc, ri, rpos, rerr, rpair, readsAfterStop, inq, inClosed, wpc,
                  wcur, outq, outClosed, spc, sj, scur, tErr, serClosed, closed >>

C_Close ==
  /\ cfg.allowClose /\ cpc = "idle" /\ ~closed
  /\ closed' = TRUE /\ cancelled' = TRUE /\ cpc' = "wait"
  /\ hist' = Append(hist, [op |-> "close"])
  /\ UNCHANGED << cfg, started, parentCancelled, pipeVars, cData, cIndex, pOff, cOff, sErr, delivered, lastScan >>

C_Waited ==
  /\ cpc = "wait" /\ AllDone /\ cpc' = "idle"
  /\ hist' = hist \o << [op |-> "closed"], [op |-> "offs", cur |-> cOff, prev |-> pOff] >>
  /\ UNCHANGED << cfg, started, cancelled, parentCancelled, pipeVars, cData, cIndex, pOff, cOff, sErr, closed, delivered, lastScan >>

\* Err() as the scanner computes it
ErrClass == IF sErr = "eof" THEN "nil" ELSE IF sErr # Nil THEN sErr
            ELSE IF closed THEN "closed" ELSE IF parentCancelled THEN "canceled" ELSE "nil"

NErr == Cardinality({i \in 1 .. Len(hist) : hist[i].op = "err"})
C_Err ==    \* Err(): an observation, recorded in the history
  /\ cpc = "idle" /\ NErr < cfg.maxErr
  /\ hist' = Append(hist, [op |-> "err", class |-> ErrClass])
  /\ UNCHANGED << cfg, started, cancelled, parentCancelled, pipeVars, cpc, cData, cIndex, pOff, cOff, sErr, closed, delivered, lastScan >>

Cancel ==   \* the caller's context is cancelled (by the scanning goroutine between calls, or by another one at any time)
  /\ cfg.allowCancel /\ ~parentCancelled
  /\ parentCancelled' = TRUE /\ cancelled' = TRUE
  /\ hist' = Append(hist, [op |-> "cancel"])
  /\ UNCHANGED << cfg, started, pipeVars, cpc, cData, cIndex, pOff, cOff, sErr, closed, delivered, lastScan >>

RNext == R_First \/ R_Read \/ R_Exit \/ R_Sent \/ R_Dropped
WNext(w) == W_Got(w) \/ W_InClosed(w) \/ W_Sent(w) \/ W_Dropped(w)
SNext == S_Got \/ S_Done \/ S_Sent \/ S_Exit
CNext == C_Call \/ C_Header \/ C_Got \/ C_Close \/ C_Waited \/ C_Err

Next == RNext \/ (\E w \in Workers : WNext(w)) \/ SNext \/ CNext \/ Cancel

Spec == Init /\ [][Next]_vars
FairSpec == Spec
            /\ WF_vars(RNext)
            /\ \A w \in 0 .. 3 : WF_vars(w \in Workers /\ WNext(w))
            /\ WF_vars(SNext)
            /\ WF_vars(C_Got) /\ WF_vars(C_Waited)
            \* Go's select chooses at random among ready cases, so a ctx.Done case that stays ready is eventually taken
            /\ WF_vars(S_Done) /\ WF_vars(R_Dropped) /\ \A v \in 0 .. 3 : WF_vars(v \in Workers /\ W_Dropped(v))

(* ====================== Judges on the Model's state ===================== *)
RECURSIVE Flat(_, _)
Flat(bl, k) == IF k > Len(bl) THEN << >> ELSE
               IF bl[k].k = "data" THEN [j \in 1 .. bl[k].n |-> <<k, j>>] \o Flat(bl, k + 1) ELSE << >>
ExpectedOf(c) == IF c.hdr \in {"trunc", "feature", "empty"} THEN << >> ELSE Flat(c.blocks, 1)
Expected == ExpectedOf(cfg)     \* objects of the intact blocks before the first damaged one

IsPrefix(s, t) == Len(s) <= Len(t) /\ \A i \in 1 .. Len(s) : s[i] = t[i]

FirstBadOf(bl) == IF \E k \in 1 .. Len(bl) : bl[k].k # "data"
                    THEN CHOOSE k \in 1 .. Len(bl) : bl[k].k # "data" /\ \A j \in 1 .. k-1 : bl[j].k = "data"
                    ELSE 0
\* the error a scan that runs to its natural end must report ("eof" = success)
FinalErrOf(c) == CASE c.hdr = "trunc"   -> "trunc"
                   [] c.hdr = "feature" -> "feature"
                   [] c.hdr = "empty"   -> "eof"
                   [] OTHER -> (LET fb == FirstBadOf(c.blocks) IN
                                IF fb # 0 THEN (IF c.blocks[fb].k = "bad" THEN "decode" ELSE "type") ELSE c.endkind)
FinalErr == FinalErrOf(cfg)

Stopped == closed \/ parentCancelled

\* C02 / C06: file order, nothing lost / duplicated / swapped (no stop so far)
OrderInv == ~Stopped => IsPrefix(delivered, Expected)
\* C02 as a refinement step: the pipeline implements a sequential scanner -- every step either leaves the delivered
\* sequence alone or appends exactly the next object of the file (nothing duplicated, skipped or reordered), no stop so far
DeliverStep == [][~Stopped' => (delivered' = delivered \/ (Len(delivered) < Len(Expected) /\ delivered' = Append(delivered, Expected[Len(delivered) + 1])))]_vars
\* C09 as a step property: the offsets only move when a block is taken, and then previous := current
OffsetStep == [][(cOff' # cOff \/ pOff' # pOff) => (cpc = "recv" /\ pOff' = cOff)]_vars
\* C02 / C06: a scan that ended by itself delivered everything and reports the file's error
CompleteInv == (sErr # Nil /\ ~Stopped) => (delivered = Expected /\ sErr = FinalErr)

\* C09: offset of the block containing the most recently returned object; previous = value during the preceding block
OffsetInv ==
  (cpc = "idle" /\ lastScan = "true" /\ ~Stopped) =>
     LET b == delivered[Len(delivered)][1] IN cOff = Off(b) /\ pOff = (IF b = 1 THEN 0 ELSE Off(b - 1))

\* C07: bounded read-ahead after a stop
ReadAheadInv == readsAfterStop <= 1

\* C07: nil only after a complete scan; the earlier error wins (by construction of ErrClass)
ErrPrecedenceInv ==
  (cpc = "idle" /\ ErrClass = "nil" /\ (Stopped \/ sErr # Nil)) => (delivered = Expected /\ FinalErr = "eof")

\* C07: a Scan called after a stop returns false
LaterScansFalse == [][(cpc = "idle" /\ Stopped /\ cpc' = "idle" /\ lastScan' # lastScan) => lastScan' = "false"]_vars

TypeOK ==
  /\ rpc \in {"off", "first", "loop", "send", "done"} /\ spc \in {"off", "recv", "send", "exit", "done"}
  /\ cpc \in {"idle", "recv", "wait"} /\ \A w \in Workers : wpc[w] \in {"off", "recv", "send", "done"}
  /\ \A w \in Workers : Len(inq[w]) <= (IF Cap = 0 THEN 1 ELSE Cap) /\ Len(outq[w]) <= (IF Cap = 0 THEN 1 ELSE Cap)
  /\ Len(serq) <= N

CloseReturns == [](cpc = "wait" => <>(cpc = "idle"))
\* every goroutine the scanner started terminates once the scan has been stopped or has ended
AllExit == []((Stopped \/ sErr # Nil) => <>AllDone)
ScanEnds == [](cpc = "recv" => <>(cpc = "idle"))

(* ============ Judge on an API-level history (real or Model) ============= *)
(* run = [cfg |-> c, H |-> history, reads |-> number of file blocks read by the reader after the first stop began, *)
(*        rem |-> number of file blocks not yet read when the first stop began]                                   *)
(* H entries in linear order:                                                                                     *)
(*   [op |-> "call"]                      Scan called                                                              *)
(*   [op |-> "ret", ok, blk, idx, cur, prev]   Scan returned (object <<blk, idx>>; offsets as reported afterwards) *)
(*   [op |-> "err", class]                Err() returned a value of that class                                     *)
(*   [op |-> "hdr", class]                Header() returned with an error of that class ("nil" = none, "eof" = empty input) *)
(*   [op |-> "close"] / [op |-> "closed"] Close called / returned                                                  *)
(*   [op |-> "cancel"]                    the caller's context was cancelled (atomic)                              *)
(*   [op |-> "cancel.b"] / [op |-> "cancel.e"]  cancel() called / returned in another goroutine                    *)
StopBeginOps == {"close", "cancel", "cancel.b"}
StopEndOps   == {"closed", "cancel", "cancel.e"}
Idx(H, S) == {i \in 1 .. Len(H) : H[i].op \in S}
MinOr(S, d) == IF S = {} THEN d ELSE CHOOSE x \in S : \A y \in S : x <= y
StopBegin(H) == MinOr(Idx(H, StopBeginOps), Len(H) + 1)    \* first moment at which a stop may have taken effect
StopEnd(H)   == MinOr(Idx(H, StopEndOps), Len(H) + 1)      \* first moment at which a stop is certainly in effect

Rets(H) == {i \in 1 .. Len(H) : H[i].op = "ret"}
SeqOfSet(H, S) ==   \* the entries of H at the positions S, in order
  LET RECURSIVE F(_)
      F(i) == IF i > Len(H) THEN << >> ELSE (IF i \in S THEN <<H[i]>> ELSE << >>) \o F(i + 1)
  IN F(1)
ObjsOf(rs) == [i \in 1 .. Len(rs) |-> <<rs[i].blk, rs[i].idx>>]
TrueRets(H, upto) == SeqOfSet(H, {i \in Rets(H) : i < upto /\ H[i].ok})
\* the call matching the ret at position i is the nearest preceding "call"
CallOf(H, i) == CHOOSE j \in 1 .. i : H[j].op = "call" /\ \A k \in j+1 .. i-1 : H[k].op # "call"

\* C02/C06: before any stop, the objects returned are a prefix of the file's objects, in order
HPrefixOK(c, H) == IsPrefix(ObjsOf(TrueRets(H, StopBegin(H))), ExpectedOf(c))
\* C02/C06: a scan that ended by itself (a false Scan before any stop) delivered everything
NaturalEnd(H) == \E i \in Rets(H) : i < StopBegin(H) /\ ~H[i].ok
HCompleteOK(c, H) == NaturalEnd(H) => ObjsOf(TrueRets(H, Len(H) + 1)) = ExpectedOf(c)
\* C07: every Scan called after a stop is in effect returns false
HLaterFalseOK(H) == \A i \in Rets(H) : CallOf(H, i) > StopEnd(H) => ~H[i].ok
\* C09: offsets reported after a successful Scan (before any stop)
OffA(c, k) == IF c.hdr # "none" THEN k ELSE k - 1
HOffsOK(c, H) == \A i \in Rets(H) : (i < StopBegin(H) /\ H[i].ok) =>
                    /\ H[i].cur = OffA(c, H[i].blk)
                    /\ H[i].prev = (IF H[i].blk = 1 THEN 0 ELSE OffA(c, H[i].blk - 1))
\* C09: offsets observed when no object was returned by the last call -- after the Scan that reported a clean end of input, and
\* after Close ([op |-> "offs"]): resuming at the reported offset must still not skip an element, i.e. it is the offset of the
\* block of the most recently returned object or of an empty block behind it (no delivering block in between).  Judged only in
\* histories without a context cancellation (an in-flight Scan may have taken blocks it then dropped).
LastTrue(H, i) == LET S == {j \in Rets(H) : j < i /\ H[j].ok} IN IF S = {} THEN 0 ELSE CHOOSE j \in S : \A k \in S : k <= j
BlkOfOff(c, o) == IF c.hdr # "none" THEN o ELSE o + 1          \* inverse of OffA for block starts
HOffsEndOK(c, H) ==
  (Idx(H, {"cancel", "cancel.b"}) = {}) =>
  \A i \in 1 .. Len(H) :
     ( \/ (H[i].op = "offs" /\ ~\E j \in Rets(H) : j < i /\ ~H[j].ok /\ FinalErrOf(c) # "eof")   \* not after the scan ended in an error
       \/ (H[i].op = "ret" /\ ~H[i].ok /\ i < StopBegin(H) /\ FinalErrOf(c) = "eof") ) =>
     LET lt == LastTrue(H, i)
         lastBlk == IF lt = 0 THEN 0 ELSE H[lt].blk
         b == BlkOfOff(c, H[i].cur) IN
     IF lastBlk = 0 /\ H[i].cur = 0 THEN TRUE                  \* nothing returned yet, nothing taken
     ELSE /\ b \in 1 .. Len(c.blocks) /\ b >= lastBlk
          /\ \A k \in lastBlk + 1 .. b : c.blocks[k].k = "data" /\ c.blocks[k].n = 0

\* C06/C07: Err().  Classes as the recorder can tell them apart: "nil", "closed", "canceled", "trunc" (io.ErrUnexpectedEOF),
\* "other" (any other error: undecodable block, unexpected block type, unsupported feature, ...)
ErrCls(e) == CASE e = "eof" -> "nil" [] e \in {"decode", "type", "feature"} -> "other" [] OTHER -> e
\* every error some block or the end of this file can produce
FileErrs(c) == {ErrCls(IF c.blocks[k].k = "bad" THEN "decode" ELSE "type") : k \in {j \in 1 .. Len(c.blocks) : c.blocks[j].k # "data"}}
               \cup (IF c.endkind = "eof" THEN {} ELSE {ErrCls(c.endkind)}) \cup (IF FinalErrOf(c) = "eof" THEN {} ELSE {ErrCls(FinalErrOf(c))})
AllDelivered(c, H) == ObjsOf(TrueRets(H, Len(H) + 1)) = ExpectedOf(c)
HErrOK(c, H) ==
  \A i \in Idx(H, {"err"}) :
     LET cls == ErrCls(H[i].class)
         hdrEnd(j) == H[j].op = "hdr" /\ H[j].class # "nil"                      \* Header() already recorded the end / an error
         natural == \/ \E j \in Rets(H) : j < i /\ j < StopBegin(H) /\ ~H[j].ok  \* ended by itself before any stop
                    \/ \E j \in 1 .. i - 1 : j < StopBegin(H) /\ hdrEnd(j)
         ended   == (\E j \in Rets(H) : j < i /\ ~H[j].ok) \/ (\E j \in 1 .. i - 1 : hdrEnd(j))
         closeB  == \E j \in 1 .. i : H[j].op = "close"
         cancelB == \E j \in 1 .. i : H[j].op \in {"cancel", "cancel.b"}
     IN IF natural
        THEN IF FinalErrOf(c) = "eof"                            \* ended cleanly on a block boundary: success (a later stop may be reported)
             THEN cls = "nil" \/ (cls = "closed" /\ closeB) \/ (cls = "canceled" /\ cancelB)
             ELSE cls \notin {"nil", "closed", "canceled"}        \* the recorded error wins, also over a later stop
        ELSE IF i > StopEnd(H)
             THEN \/ cls = "closed" /\ closeB
                  \/ cls = "canceled" /\ cancelB
                  \/ cls \in FileErrs(c) /\ ended       \* an error of the file was recorded by an in-flight Scan (blocks may have been dropped)
                  \/ cls = "nil" /\ FinalErrOf(c) = "eof" /\ AllDelivered(c, H) /\ ended   \* the scan completed while being stopped
             ELSE TRUE                                                            \* property is silent while the scan is in progress
\* C07: a stop does not make the scanner consume the rest of the input
HReadAheadOK(r) == r.rem >= 3 => r.reads < r.rem
\* C07: termination
HOutcomeOK(r) == r.outcome = "ok"     \* not "hang" (Close or Scan did not return), "leak" (goroutines left), "crash"

\* C09: a new scanner started at a reported offset (the start of data block `from`), where the first block is a data
\* block instead of a header, yields exactly the remaining objects beginning with the first object of that block
SuffixErr(c, k) == LET bad == {j \in k .. Len(c.blocks) : c.blocks[j].k # "data"} IN
                   IF bad = {} THEN c.endkind
                   ELSE (LET fb == CHOOSE j \in bad : \A i \in bad : j <= i IN IF c.blocks[fb].k = "bad" THEN "decode" ELSE "type")
HResumeOK(r) == \A i \in 1 .. Len(r.resume) :
                   LET e == r.resume[i] IN
                   /\ e.from \in 1 .. Len(r.cfg.blocks)
                   /\ [j \in 1 .. Len(e.objs) |-> <<e.objs[j][1], e.objs[j][2]>>] = Flat(r.cfg.blocks, e.from)
                   /\ ErrCls(e.err) = ErrCls(SuffixErr(r.cfg, e.from))
                   \* offsets reported by the resumed scanner count from where it started (recorded as start + reported)
                   /\ ("offs" \in DOMAIN e) => \A j \in 1 .. Len(e.offs) :
                         /\ e.offs[j][1] = OffA(r.cfg, e.objs[j][1])
                         /\ e.offs[j][2] = OffA(r.cfg, IF e.objs[j][1] = e.from THEN e.from ELSE e.objs[j][1] - 1)

RunWhy(r) ==
  (IF HPrefixOK(r.cfg, r.H) THEN {} ELSE {"order: delivered objects are not a prefix of the file's objects"}) \cup
  (IF HCompleteOK(r.cfg, r.H) THEN {} ELSE {"complete: scan ended by itself without delivering every object"}) \cup
  (IF HLaterFalseOK(r.H) THEN {} ELSE {"stop: Scan returned true after Close/cancel"}) \cup
  (IF HOffsOK(r.cfg, r.H) THEN {} ELSE {"offsets: FullyScannedBytes/PreviousFullyScannedBytes wrong"}) \cup
  (IF HOffsEndOK(r.cfg, r.H) THEN {} ELSE {"offsets: offset reported after the end of the scan / after Close would skip elements on resume"}) \cup
  (IF HErrOK(r.cfg, r.H) THEN {} ELSE {"err: Err() class not allowed by the precedence rule"}) \cup
  (IF HReadAheadOK(r) THEN {} ELSE {"readahead: input consumed to the end after the stop"}) \cup
  (IF HResumeOK(r) THEN {} ELSE {"resume: scanner restarted at a reported offset did not yield exactly the remaining objects"}) \cup
  (IF HOutcomeOK(r) THEN {} ELSE {"outcome: " \o r.outcome})
RunOK(r) == RunWhy(r) = {}

\* the Model's own history must satisfy the history Judge (guards the Judge against over-strictness)
ModelRun == [cfg |-> cfg, H |-> hist, reads |-> readsAfterStop, rem |-> 3, outcome |-> "ok", resume |-> << >>]
HistInv == (cpc = "idle" /\ Len(hist) > 0 /\ hist[Len(hist)].op # "call") => RunOK(ModelRun)
=============================================================================
