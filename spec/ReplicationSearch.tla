------------------------- MODULE ReplicationSearch -------------------------
(* C19 - replication state lookup by time (replication/search.go and the     *)
(* URL / state-file layout of interval.go, changesets.go, datasource.go).     *)
(*                                                                             *)
(*  1. directory, query, the deviations of the pinned tree                     *)
(*  2. JUDGE  : Want / ResultOK, RequestBound, the planet layout (URLs, state  *)
(*              file bodies, timestamps) as literal strings                    *)
(*  3. MODEL  : searchTimestamp / findBound / findInRange as a step machine,   *)
(*              one action per HTTP request                                    *)
(*  4. known-finding signatures (KF_...) and the design-level theorems         *)
(*  5. input space (families of directories x query times)                     *)
(*                                                                             *)
(* A replication directory is the set `present` of sequence numbers that have  *)
(* a state file; everything else in 1 .. newest answers 404.  State n was      *)
(* written at abstract time TS(n) = 2n; query times are integers, so an even   *)
(* q = 2n is "equal to state n's time" (or to the time a missing state would   *)
(* have had), an odd q lies strictly between two states, q < 2*First is before *)
(* and q > 2*Cur after all of them.  The search only ever compares times, so   *)
(* every strictly increasing timestamp assignment is order-isomorphic to this  *)
(* one; the concrete rendering (section 2c) additionally skews the distances.  *)
EXTENDS Integers, Sequences, FiniteSets, TLC

----------------------------------------------------------------------------
(* 1. directory, query, deviations                                           *)

MinSeq == 1                       \* the stater's Min: 1 for all four kinds (minMinute/minHour/minDay; ChangesetStateAt uses minDay)
TS(n)  == 2 * n

SetMax(S) == CHOOSE x \in S : \A y \in S : y <= x
SetMin(S) == CHOOSE x \in S : \A y \in S : x <= y

\* a directory d: [present |-> non-empty set of sequence numbers >= 1, first |-> its minimum, cur |-> its maximum]
\* a case c: the directory's fields + [q |-> query time, dev |-> set of deviations switched on,
\*                                   bound |-> RequestBound (section 2b; kept in the record, it is used at every step)]
DirOf(P)    == [present |-> P, first |-> SetMin(P), cur |-> SetMax(P)]
WellFormedDir(d) == /\ d.first \in d.present /\ d.cur \in d.present /\ d.first >= 1
                    /\ \A n \in d.present : d.first <= n /\ n <= d.cur
Cur(c)      == c.cur                              \* the current (newest) state, served as state.txt / state.yaml
First(c)    == c.first
Has(c, n)   == n \in c.present
After(c, n) == c.q > TS(n)                        \* timestamp.After(state n's Timestamp)

\* The model is the code as it should be (after fixes/C19-*.diff).  The places where the pinned tree
\* deviates are named; a case carries the set of deviations that are switched on.
DevProbeLoops    == "probe-loops-test-splitID"       \* search.go:276,290 loop conditions test splitID, not the moving sID        (#10)
DevAdjacentLower == "adjacent-bounds-return-lower"   \* search.go:212 `lower+1 >= upper -> return lower` also when t is after lower (#11)
DevNoLowerCheck  == "lower-never-returned"           \* no `t <= lower.Timestamp -> return lower`                                 (#11)
DevNothingLower  == "nothing-between-returns-lower"  \* search.go:302 every file between the bounds missing -> lower, not upper    (#11)
BoundaryDevs == {DevAdjacentLower, DevNoLowerCheck, DevNothingLower}
AllDevs      == {DevProbeLoops} \cup BoundaryDevs
PinnedDevs   == AllDevs
NoDevs       == {}
\* sets of deviation sets
OnlyFixed    == {NoDevs}
OnlyPinned   == {PinnedDevs}
FixPatches   == {NoDevs, {DevProbeLoops}, BoundaryDevs, PinnedDevs}      \* the trees reachable with fixes/C19-*.diff
AllDevSets   == SUBSET AllDevs

----------------------------------------------------------------------------
(* 2a. JUDGE: the result                                                      *)

\* "returns the first available state written at or after that timestamp, or the newest state when the
\*  timestamp is later than all of them"
Want(c) == IF After(c, Cur(c)) THEN Cur(c)
           ELSE CHOOSE n \in c.present : TS(n) >= c.q /\ \A m \in c.present : TS(m) >= c.q => n <= m
ResultOK(c, seq) == seq = Want(c)

(* 2b. JUDGE: the number of requests                                          *)
\* "terminates after a number of requests logarithmic in the sequence range plus the number of missing
\*  files it has to step over".  Range = 1 .. Cur.  Missing files to step over: the ones between the oldest
\*  and the newest existing state (Holes); a bisection that lands in a hole probes its neighbours, at most
\*  HoleFactor times each.  When state 1 itself is missing the missing prefix 1 .. First-1 has to be stepped
\*  over as well: bisecting upwards costs at most Log2(Cur)+1 files of it per attempt, and the lower bound is
\*  re-established at most PrefixRounds(c) times (once per halving of the populated span First .. Cur; findBound
\*  starts again from 1 after every new upper bound - this product is the only term that is not linear in
\*  log(range) + holes).  The constants are the ones TLC verifies for the Model on all families of section 5
\*  (RequestBoundInv); with HoleFactor = 2 the invariant fails, the dense family leaves a slack of 2.
CeilLog2(n) == CHOOSE k \in 0 .. 30 : 2^k >= n /\ (k = 0 \/ 2^(k-1) < n)
Span(c)     == Cur(c) - First(c) + 1
Holes(c)    == Span(c) - Cardinality(c.present)             \* = Cardinality({n \in First(c) .. Cur(c) : ~Has(c, n)})
PrefixRounds(c) == IF Has(c, MinSeq) THEN 0 ELSE CeilLog2(Span(c)) + 2
LogFactor  == 2
HoleFactor == 3
BaseCost   == 4
RequestBound(c) == BaseCost + LogFactor * CeilLog2(Cur(c)) + HoleFactor * Holes(c)
                     + PrefixRounds(c) * (CeilLog2(Cur(c)) + 1)
\* the test server gives up (abstract outcome "hang") after this many requests
Cap(c) == c.bound + 20
CaseWith(d, q, dev, b) == [present |-> d.present, first |-> d.first, cur |-> d.cur, q |-> q, dev |-> dev, bound |-> b]
CaseOf(d, q, dev) == CaseWith(d, q, dev, RequestBound(d))

----------------------------------------------------------------------------
(* 2c. JUDGE: the planet layout, as literal strings                           *)
\*   https://planet.osm.org/replication/minute/state.txt                      current state (minute, hour, day)
\*   https://planet.osm.org/replication/minute/004/321/987.state.txt          state 4321987: three levels, zero padded
\*   https://planet.osm.org/replication/changesets/state.yaml                 current changeset state
\*   https://planet.osm.org/replication/changesets/002/007/990.state.txt      changeset state 2007990 (YAML inside)

Kinds == {"minute", "hour", "day", "changesets"}

RECURSIVE PadN(_, _)
PadN(n, w) == IF w <= 1 THEN ToString(n) ELSE PadN(n \div 10, w - 1) \o ToString(n % 10)   \* at least w digits
Pad2(n) == PadN(n, 2)
Pad3(n) == PadN(n, 3)

SeqPath(n)        == Pad3(n \div 1000000) \o "/" \o Pad3((n % 1000000) \div 1000) \o "/" \o Pad3(n % 1000)
StateURL(kind, n) == "/replication/" \o kind \o "/" \o SeqPath(n) \o ".state.txt"
CurrentURL(kind)  == "/replication/" \o kind \o (IF kind = "changesets" THEN "/state.yaml" ELSE "/state.txt")
URL(kind, id)     == IF id = 0 THEN CurrentURL(kind) ELSE StateURL(kind, id)      \* id 0 = "the current state"

\* Concrete times.  Abstract time h (half steps; state n is h = 2n) |-> seconds since 1970 (+ nanoseconds for
\* the changeset kind).  A time assignment t: [kind, skew, unit, pauses, pauselen] (part of the rendering
\* parameters r below) is strictly increasing in h, so it is order-isomorphic to TS - the search only compares
\* times, its requests must not depend on the choice:
\*   unit      seconds per half step (Unit(kind) by default: states one minute / hour / day apart; state 1 of
\*             minute / hour / day and changeset state 2007990 get the dates noted in search.go)
\*   skew = 1  moves every third state later by up to half a step
\*   pauses    set of sequence numbers p after which replication paused: pauselen extra seconds between the
\*             states p and p+1 (heavily non-uniform assignments: pauselen >> unit * number of states).
\*             A query time h = 2p+1 inside a pause is rendered on either side of it: side 0 = one unit after
\*             state p, side 1 = one unit before state p+1 (both strictly between the two states).
Unit(kind)  == CASE kind = "minute" -> 30 [] kind = "hour" -> 1800 [] kind = "day" -> 43200 [] kind = "changesets" -> 30
Epoch1(kind) == CASE kind = "minute"     -> 1347437745     \* 2012-09-12T08:15:45Z
                  [] kind = "hour"       -> 1373803200     \* 2013-07-14T12:00:00Z
                  [] kind = "day"        -> 1347494400     \* 2012-09-13T00:00:00Z
                  [] kind = "changesets" -> 1352765762     \* so that state 2007990 is 2016-09-07 10:45:02
UniformTime(kind, skew) == [kind |-> kind, skew |-> skew, unit |-> Unit(kind), pauses |-> {}, pauselen |-> 0]
Skew(t, h)          == IF t.skew = 1 /\ h % 2 = 0 THEN ((h \div 2) % 3) * (t.unit \div 4) ELSE 0
PausesBefore(t, h, side) == Cardinality({p \in t.pauses : 2 * p + 1 < h \/ (2 * p + 1 = h /\ side = 1)})
QSec(t, h, side)    == Epoch1(t.kind) + t.unit * (h - 2) + Skew(t, h) + t.pauselen * PausesBefore(t, h, side)
Sec(t, h)           == QSec(t, h, 0)
Nsec(kind, h)       == IF kind = "changesets" THEN 148547780 + (h % 8) * 100000007 ELSE 0

\* A finer query grid below the second.  An odd h = 2n+1 stands for every time strictly between the states n and
\* n+1 (whether they exist or not); besides the whole-unit rendering QSec these concrete times are the same
\* abstract query:   after state n: +1 ns, +100 ms, the next whole second;
\*                   before state n+1: -1 ns, the whole second state n+1 lies in (when it has a fractional part).
\* Times are pairs <<sec, nsec>>; only those strictly between the two state times are kept.
TimeOf(t, h)   == <<Sec(t, h), Nsec(t.kind, h)>>
NormT(sec, ns) == IF ns < 0 THEN <<sec - 1, ns + 1000000000>>
                  ELSE IF ns >= 1000000000 THEN <<sec + 1, ns - 1000000000>> ELSE <<sec, ns>>
Earlier(a, b)  == a[1] < b[1] \/ (a[1] = b[1] /\ a[2] < b[2])
FineTimes(t, h) == LET a == TimeOf(t, h - 1)   b == TimeOf(t, h + 1) IN
  {x \in {NormT(a[1], a[2] + 1), NormT(a[1], a[2] + 100000000), <<a[1] + 1, 0>>, NormT(b[1], b[2] - 1), <<b[1], 0>>} :
     Earlier(a, x) /\ Earlier(x, b)}

\* civil date from seconds since 1970 (proleptic Gregorian, UTC)
Civil(sec) ==
  LET days == sec \div 86400
      sod  == sec % 86400
      z    == days + 719468
      era  == z \div 146097
      doe  == z - era * 146097
      yoe  == (doe - doe \div 1460 + doe \div 36524 - doe \div 146096) \div 365
      doy  == doe - (365 * yoe + yoe \div 4 - yoe \div 100)
      mp   == (5 * doy + 2) \div 153
      d    == doy - (153 * mp + 2) \div 5 + 1
      m    == IF mp < 10 THEN mp + 3 ELSE mp - 9
      y    == yoe + era * 400 + (IF m <= 2 THEN 1 ELSE 0)
  IN [Y |-> y, M |-> m, D |-> d, h |-> sod \div 3600, m |-> (sod % 3600) \div 60, s |-> sod % 60, wd |-> (days + 4) % 7]

DayNames   == <<"Sun", "Mon", "Tue", "Wed", "Thu", "Fri", "Sat">>
MonthNames == <<"Jan", "Feb", "Mar", "Apr", "May", "Jun", "Jul", "Aug", "Sep", "Oct", "Nov", "Dec">>

\* timestamp=2012-09-12T08\:15\:45Z   (java.util.Properties escapes the colons)
EscapedTime(sec) == LET t == Civil(sec) IN
  PadN(t.Y, 4) \o "-" \o Pad2(t.M) \o "-" \o Pad2(t.D) \o "T" \o Pad2(t.h) \o "\\:" \o Pad2(t.m) \o "\\:" \o Pad2(t.s) \o "Z"
\* #Wed Sep 12 08:15:45 UTC 2012
PropsDate(sec) == LET t == Civil(sec) IN
  DayNames[t.wd + 1] \o " " \o MonthNames[t.M] \o " " \o Pad2(t.D) \o " " \o Pad2(t.h) \o ":" \o Pad2(t.m) \o ":" \o Pad2(t.s)
    \o " UTC " \o PadN(t.Y, 4)
\* last_run: 2016-09-07 10:45:02.148547780 +00:00     (older files: "... Z")
YamlTime(sec, nsec, zone) == LET t == Civil(sec) IN
  PadN(t.Y, 4) \o "-" \o Pad2(t.M) \o "-" \o Pad2(t.D) \o " " \o Pad2(t.h) \o ":" \o Pad2(t.m) \o ":" \o Pad2(t.s)
    \o "." \o PadN(nsec, 9) \o " " \o zone

\* state.txt of minute / hour / day replication is a java.util.Properties file: a date comment, key=value lines in
\* no defined order, colons escaped.  style 0 = the osmosis file of today (all six keys), 1 = the short early files
\* (sequenceNumber and timestamp only).  Per state a layout is chosen (Layout below):
\*   order    which permutation of the keys (KeyOrders: the order of the example in interval.go, today's planet
\*            order with the timestamp last, alphabetical, transaction lists first)
\*   ready, active   how many transaction ids txnReadyList / txnActiveList hold: 0, 60, 130 or 400 (files of
\*            about 0.2, 0.9, 1.6 and 4.5 KiB)
\*   crlf     lines end in CR LF instead of LF
\*   notes    0-2 further comment lines ('#' and '!' comments, one containing '=' and ':')
KeyOrders == << <<"txnMaxQueried", "sequenceNumber", "timestamp", "txnReadyList", "txnMax", "txnActiveList">>,
                <<"sequenceNumber", "txnMaxQueried", "txnActiveList", "txnReadyList", "txnMax", "timestamp">>,
                <<"sequenceNumber", "timestamp", "txnActiveList", "txnMax", "txnMaxQueried", "txnReadyList">>,
                <<"txnActiveList", "txnReadyList", "timestamp", "sequenceNumber", "txnMax", "txnMaxQueried">> >>
ListLens  == <<0, 60, 130, 400>>
RECURSIVE IdStr(_)
IdStr(k) == IF k = 0 THEN "" ELSE IF k = 1 THEN ToString(829000001) ELSE IdStr(k - 1) \o "," \o ToString(829000000 + k)
Ids60 == IdStr(60)   Ids130 == IdStr(130)   Ids400 == IdStr(400)
IdList(k) == CASE k = 0 -> "" [] k = 60 -> Ids60 [] k = 130 -> Ids130 [] k = 400 -> Ids400
\* the layout of state n's file under rendering parameters r (r.lay: a per-directory number, r.lists = 0 switches
\* the long lists off for directories with very many files)
Layout(r, n) == LET h == 5 * n + r.lay IN
  [order |-> (h % 4) + 1,
   ready |-> IF r.lists = 0 THEN 0 ELSE ListLens[((h \div 4) % 4) + 1],
   active |-> IF r.lists = 0 THEN 0 ELSE ListLens[((h \div 16) % 4) + 1],
   crlf |-> (h \div 64) % 2, notes |-> (h \div 128) % 3]
TxnMax(r, n)        == IF r.kind # "changesets" /\ r.style = 0 THEN 830000100 + n ELSE 0    \* State.TxnMax as read from the file
TxnMaxQueried(r, n) == IF r.kind # "changesets" /\ r.style = 0 THEN 830000000 + n ELSE 0
PropsLine(r, n, sec, lay, key) ==
  key \o "=" \o (CASE key = "sequenceNumber" -> ToString(n)
                    [] key = "timestamp"      -> EscapedTime(sec)
                    [] key = "txnMax"         -> ToString(TxnMax(r, n))
                    [] key = "txnMaxQueried"  -> ToString(TxnMaxQueried(r, n))
                    [] key = "txnReadyList"   -> IdList(lay.ready)
                    [] key = "txnActiveList"  -> IdList(lay.active))
RECURSIVE JoinLines(_, _)
JoinLines(ls, eol) == IF ls = << >> THEN "" ELSE Head(ls) \o eol \o JoinLines(Tail(ls), eol)
IntervalBody(r, n, sec) == LET lay  == Layout(r, n)
                               eol  == IF lay.crlf = 1 THEN "\r\n" ELSE "\n"
                               keys == IF r.style = 0 THEN KeyOrders[lay.order]
                                       ELSE IF lay.order % 2 = 1 THEN <<"sequenceNumber", "timestamp">> ELSE <<"timestamp", "sequenceNumber">>
                               note == CASE lay.notes = 0 -> << >>
                                         [] lay.notes = 1 -> <<"#osmosis replication state, timestamp=1970-01-01T00\\:00\\:00Z">>
                                         [] lay.notes = 2 -> <<"! written by osmosis", "#sequenceNumber = 0 : see timestamp">>
                           IN JoinLines(<<"#" \o PropsDate(sec + 1)>> \o note \o [i \in 1 .. Len(keys) |-> PropsLine(r, n, sec, lay, keys[i])], eol)
\* NNN.state.txt / state.yaml of changeset replication.  Two conventions for the `sequence:` value exist on the
\* planet: the oldest files (2007990 .. 2008003) write their own number, all files from the seam 2008004 on - and
\* state.yaml, the current state - write one less than the name of the newest file ("a consistent mistake",
\* changesets.go).  The state's sequence number is the file's NAME in both cases.  r.seam is the directory's seam:
\* files n < seam write n, files n >= seam write n-1 (seam <= first: all minus one, seam > cur: all equal).
SequenceInside(r, n) == IF n < r.seam THEN n ELSE n - 1
ChangesetBody(r, n, sec, nsec, inside) == LET eol == IF Layout(r, n).crlf = 1 THEN "\r\n" ELSE "\n" IN
  "---" \o eol \o "last_run: " \o YamlTime(sec, nsec, IF r.style = 0 THEN "+00:00" ELSE "Z") \o eol \o "sequence: " \o ToString(inside) \o eol

\* rendering parameters r: a time assignment + [style \in {0,1}, lay, lists (file layout, above), seam (changeset
\* kind), prefix (path prefix of a mirror, may be "")]
Body(r, n) == LET sec == Sec(r, TS(n)) IN
  IF r.kind = "changesets" THEN ChangesetBody(r, n, sec, Nsec(r.kind, TS(n)), SequenceInside(r, n)) ELSE IntervalBody(r, n, sec)
FileOf(r, n)     == [path |-> r.prefix \o StateURL(r.kind, n), body |-> Body(r, n)]
\* the current state: a copy of the newest state file; state.yaml always in the current (minus one) convention
CurrentFile(r, c) == [path |-> r.prefix \o CurrentURL(r.kind),
                      body |-> IF r.kind = "changesets"
                                 THEN ChangesetBody(r, Cur(c), Sec(r, TS(Cur(c))), Nsec(r.kind, TS(Cur(c))), Cur(c) - 1)
                                 ELSE Body(r, Cur(c))]

\* every request has to be for the current-state file or for a well-formed state URL of that kind
WellFormedURL(r, path, n) == path = r.prefix \o URL(r.kind, IF n >= 1 THEN n ELSE 0)

----------------------------------------------------------------------------
(* 3. MODEL: the search as a step machine, one action per HTTP request        *)
\* s: [pc, id, lo, hi, split, nreq, res, marks]
\*   pc    "current" | "min" | "bound" | "split" | "down" | "up" | "done"     which request comes next
\*   id    the sequence number that request is for (0 = current state file)
\*   lo,hi the bounds held (sequence numbers of states that were fetched; 0 = none yet)
\*   split splitID of the running findInRange iteration
\*   nreq  requests made so far (saturates at Cap+1, only reached by the non-terminating deviation)
\*   res   the returned state (0 = none yet)
\*   marks the branches taken where the pinned tree deviates (used by the KF_ signatures only)

InitState == [pc |-> "current", id |-> 0, lo |-> 0, hi |-> 0, split |-> 0, nreq |-> 0, res |-> 0, marks |-> {}]

Req(c, s)       == [s EXCEPT !.nreq = IF @ > Cap(c) THEN @ ELSE @ + 1]
Done(s, n)      == [s EXCEPT !.pc = "done", !.res = n, !.id = 0]
Mark(s, m)      == [s EXCEPT !.marks = @ \cup {m}]

\* findInRange: `for lower.SeqNum+1 < upper.SeqNum { splitID := (lower+upper)/2 ... }  return upper`
Loop(c, s) == IF s.lo + 1 < s.hi THEN [s EXCEPT !.pc = "split", !.id = (s.lo + s.hi) \div 2] ELSE Done(s, s.hi)

\* `if timestamp.After(split.Timestamp) { lower = split } else { upper = split }`
Narrow(c, s, n) == Loop(c, IF After(c, n) THEN [s EXCEPT !.lo = n] ELSE [s EXCEPT !.hi = n])

\* every file strictly between the bounds is missing: t is after lower, so upper is the first state at or after t
StillNothing(c, s) == LET s1 == Mark(s, "nothing-between") IN
  Done(s1, IF DevNothingLower \in c.dev THEN s.lo ELSE s.hi)

\* `sID := splitID + 1; for split == nil && sID < upper.SeqNum { ...; sID++ }`
TryUp(c, s, sID) == IF (IF DevProbeLoops \in c.dev THEN s.split < s.hi ELSE sID < s.hi)
                      THEN [s EXCEPT !.pc = "up", !.id = sID]
                      ELSE StillNothing(c, s)
\* `sID := splitID - 1; for split == nil && lower.SeqNum < sID { ...; sID-- }`, then the upward loop
TryDown(c, s, sID) == IF (IF DevProbeLoops \in c.dev THEN s.lo < s.split ELSE s.lo < sID)
                        THEN [s EXCEPT !.pc = "down", !.id = sID]
                        ELSE TryUp(c, Mark(s, "nothing-below-split"), s.split + 1)

\* searchTimestamp after the bounds are known
Dispatch(c, s) ==
  IF DevNoLowerCheck \notin c.dev /\ ~After(c, s.lo)
    THEN Done(IF s.lo < s.hi THEN Mark(s, "at-or-before-lower") ELSE s, s.lo)       \* t at or before lower: lower is the answer
  ELSE IF s.lo + 1 >= s.hi
    THEN IF s.lo < s.hi /\ After(c, s.lo)
           THEN Done(Mark(s, "adjacent-after-lower"), IF DevAdjacentLower \in c.dev THEN s.lo ELSE s.hi)
           ELSE Done(s, IF DevAdjacentLower \in c.dev THEN s.lo ELSE s.hi)
  ELSE Loop(c, s)

\* --- the requests ---
\* upper, err := s.Current(ctx); `if timestamp.After(upper.Timestamp) { return upper }`
StepCurrent(c, s) == LET s1 == [Req(c, s) EXCEPT !.hi = Cur(c)] IN
  IF After(c, Cur(c)) THEN Done(s1, Cur(c)) ELSE [s1 EXCEPT !.pc = "min", !.id = MinSeq]

\* lower, err := s.State(ctx, s.Min); 404 -> findBound (which asks for state 1 again)
StepMin(c, s) == LET s1 == Req(c, s) IN
  IF Has(c, MinSeq) THEN Dispatch(c, [s1 EXCEPT !.lo = MinSeq]) ELSE [s1 EXCEPT !.pc = "bound", !.id = 1]

\* findBound: one probe of lowerID = s.id
StepBound(c, s) == LET s1 == Req(c, s)   n == s.id IN
  IF Has(c, n) /\ TS(n) > c.q                          \* lower.Timestamp.After(timestamp)
    THEN IF n + 1 >= s.hi THEN Dispatch(c, [s1 EXCEPT !.lo = n])                   \* "only two sequence numbers"
         ELSE IF (1 + n) \div 2 <= 1 THEN Dispatch(c, [s1 EXCEPT !.lo = n, !.hi = n])
         ELSE [s1 EXCEPT !.hi = n, !.id = (1 + n) \div 2]                           \* new upper bound, start again from 1
  ELSE IF Has(c, n) THEN Dispatch(c, [s1 EXCEPT !.lo = n])                          \* a state at or before t: the lower bound
  ELSE LET newID == (n + s.hi) \div 2 IN
       IF newID <= n THEN Dispatch(c, [s1 EXCEPT !.lo = s.hi])                      \* "upper is probably the best we can do"
       ELSE [s1 EXCEPT !.id = newID]

StepSplit(c, s) == LET s1 == [Req(c, s) EXCEPT !.split = s.id] IN
  IF Has(c, s.id) THEN Narrow(c, s1, s.id) ELSE TryDown(c, s1, s.id - 1)
StepDown(c, s)  == LET s1 == Req(c, s) IN
  IF Has(c, s.id) THEN Narrow(c, s1, s.id) ELSE TryDown(c, s1, s.id - 1)
StepUp(c, s)    == LET s1 == Req(c, s) IN
  IF Has(c, s.id) THEN Narrow(c, s1, s.id) ELSE TryUp(c, s1, s.id + 1)

Step(c, s) == CASE s.pc = "current" -> StepCurrent(c, s)
                [] s.pc = "min"     -> StepMin(c, s)
                [] s.pc = "bound"   -> StepBound(c, s)
                [] s.pc = "split"   -> StepSplit(c, s)
                [] s.pc = "down"    -> StepDown(c, s)
                [] s.pc = "up"      -> StepUp(c, s)

\* the machine
VARIABLES cs, st
vars == <<cs, st>>

FetchCurrent == st.pc = "current" /\ st' = StepCurrent(cs, st) /\ UNCHANGED cs
FetchMin     == st.pc = "min"     /\ st' = StepMin(cs, st)     /\ UNCHANGED cs
ProbeBound   == st.pc = "bound"   /\ st' = StepBound(cs, st)   /\ UNCHANGED cs
ProbeSplit   == st.pc = "split"   /\ st' = StepSplit(cs, st)   /\ UNCHANGED cs
ProbeDown    == st.pc = "down"    /\ st' = StepDown(cs, st)    /\ UNCHANGED cs
ProbeUp      == st.pc = "up"      /\ st' = StepUp(cs, st)      /\ UNCHANGED cs
Next     == FetchCurrent \/ FetchMin \/ ProbeBound \/ ProbeSplit \/ ProbeDown \/ ProbeUp
\* what the next request is and how the directory answers it
NextURL(r)  == r.prefix \o URL(r.kind, st.id)
NextStatus  == IF st.id = 0 \/ Has(cs, st.id) THEN 200 ELSE 404

\* the same machine as a function: the outcome of a whole run (used by the Judge module on recorded cases)
RECURSIVE RunFrom(_, _, _)
RunFrom(c, s, fuel) == IF s.pc = "done" \/ fuel = 0 THEN s ELSE RunFrom(c, Step(c, s), fuel - 1)
Run(c)        == RunFrom(c, InitState, Cap(c) + 1)
Outcome(c)    == LET s == Run(c) IN IF s.pc = "done" THEN s.res ELSE -1          \* -1: no answer within Cap requests
FixedRun(c)   == Run([c EXCEPT !.dev = NoDevs])

----------------------------------------------------------------------------
(* 4. known findings and design-level theorems                                *)

\* (#11b) findBound only ever bisects upwards.  UpIds(u): the ids it asks for on the way from 1 towards the
\* upper bound u; the first existing one decides: at or before t -> lower bound found (fine); after t -> it
\* becomes the new upper bound and the bisection starts again from 1.  When none exists, the upper bound is
\* returned although an existing state at or after t may hide below it in a place the bisection never asks for.
RECURSIVE UpIdsFrom(_, _)
UpIdsFrom(m, u) == IF (m + u) \div 2 <= m THEN {m} ELSE {m} \cup UpIdsFrom((m + u) \div 2, u)
UpIds(u) == UpIdsFrom(1, u)
RECURSIVE BoundAnswer(_, _)
BoundAnswer(c, u) ==                      \* 0: a proper lower bound was found;  n > 0: findBound settles for n
  LET hit == UpIds(u) \cap c.present IN
  IF hit = {} THEN u
  ELSE LET p == SetMin(hit) IN
       IF ~(TS(p) > c.q) THEN 0
       ELSE IF p + 1 >= u THEN p
       ELSE BoundAnswer(c, p)
KF_FindBoundGap(c) ==
  /\ ~Has(c, MinSeq) /\ ~After(c, Cur(c))            \* findBound runs
  /\ BoundAnswer(c, Cur(c)) \notin {0, Want(c)}      \* and settles for a state later than the first one at or after t

\* (#10) the search needs to look past a run of missing files below a split: the pinned loop conditions never
\* stop there (they re-fetch lower for ever).  Stated on the run of the model without deviations.
KF_ProbeLoop(c) == "nothing-below-split" \in FixedRun(c).marks

\* (#11) the three boundary results: the bounds are adjacent and t is after lower; t is at or before lower and
\* the bounds are not adjacent; every file strictly between the bounds is missing.
KF_Boundary(c) == FixedRun(c).marks \cap {"adjacent-after-lower", "at-or-before-lower", "nothing-between"} # {}

\* the planet layout: only a prefix of the files is missing
Contiguous(c) == c.present = First(c) .. Cur(c)

\* --- theorems checked by TLC on the machine (configs ReplicationSearch_mc*.cfg) ---
TypeOK == /\ st.pc \in {"current", "min", "bound", "split", "down", "up", "done"}
          /\ st.id \in 0 .. Cur(cs) /\ st.lo \in {0} \cup cs.present /\ st.hi \in {0} \cup cs.present
          /\ (st.pc \notin {"current", "done"} => st.id >= 1)
          /\ st.nreq \in 0 .. Cap(cs) + 1 /\ st.res \in {0} \cup cs.present
IsDone == st.pc = "done"
\* the model without deviations returns the wanted state - except exactly on the findBound gap class
ResultInv      == (IsDone /\ cs.dev = NoDevs) => (ResultOK(cs, st.res) <=> ~KF_FindBoundGap(cs))
PlanetLayoutOK == (IsDone /\ cs.dev = NoDevs /\ Contiguous(cs)) => ResultOK(cs, st.res)
RequestBoundInv == DevProbeLoops \notin cs.dev => st.nreq <= cs.bound
\* the bounds bracket the answer while findInRange runs (model without deviations)
BracketInv == (cs.dev = NoDevs /\ st.pc \in {"split", "down", "up"}) =>
                 /\ st.lo \in cs.present /\ st.hi \in cs.present /\ st.lo + 1 < st.hi
                 /\ After(cs, st.lo) /\ ~After(cs, st.hi)
\* whatever subset of the deviations is switched on: a wrong or missing answer is explained by a signature
\* of a deviation that is switched on (or by the findBound gap)
Explained(c, seq) ==
  \/ ResultOK(c, seq)
  \/ KF_FindBoundGap(c)
  \/ (DevProbeLoops \in c.dev /\ KF_ProbeLoop(c))
  \/ (c.dev \cap BoundaryDevs # {} /\ KF_Boundary(c))
KFCoverInv == /\ IsDone => Explained(cs, st.res)
              /\ st.nreq > cs.bound => (DevProbeLoops \in cs.dev /\ KF_ProbeLoop(cs))
\* an answer different from the one of the model without deviations is explained by a deviation's signature
DiffersInv == (IsDone /\ st.res # Outcome([cs EXCEPT !.dev = NoDevs])) =>
                 \/ (DevProbeLoops \in cs.dev /\ KF_ProbeLoop(cs))
                 \/ (cs.dev \cap BoundaryDevs # {} /\ KF_Boundary(cs))
\* the function form agrees with the machine
RunAgrees == IsDone => (st.res = Outcome(cs) /\ st.nreq = Run(cs).nreq)

Terminates == <>IsDone
\* query times: before the first state ... after the newest one
Queries(d) == (2 * d.first - 1) .. (2 * d.cur + 1)
\* a selection for long directories: around the first / newest state, around the missing run, a spread over the rest
SelectedQueries(d) ==
  LET gap == {n \in d.first .. d.cur : n \notin d.present}
      ga  == IF gap = {} THEN d.first ELSE SetMin(gap)
      gb  == IF gap = {} THEN d.first ELSE SetMax(gap)
      near(n) == (2 * n - 3) .. (2 * n + 3)
  IN (near(d.first) \cup near(d.cur) \cup near(ga) \cup near(gb) \cup near((ga + gb) \div 2)
        \cup {2 * (d.first + ((d.cur - d.first) * k) \div 7) + (k % 2) : k \in 1 .. 6}) \cap Queries(d)
QueriesOf(d, fullUpTo) == IF d.cur - d.first < fullUpTo THEN Queries(d) ELSE SelectedQueries(d)

Init(dirs, devsets, fullUpTo) == \E d \in dirs : LET b == RequestBound(d) IN
                                    \E q \in QueriesOf(d, fullUpTo), dev \in devsets :
                                      cs = CaseWith(d, q, dev, b) /\ st = InitState
Spec(dirs, devsets, fullUpTo)     == Init(dirs, devsets, fullUpTo) /\ [][Next]_vars
FairSpec(dirs, devsets, fullUpTo) == Spec(dirs, devsets, fullUpTo) /\ WF_vars(Next)

----------------------------------------------------------------------------
(* 5. input space                                                             *)
DenseDirs(n)        == {DirOf(P) : P \in (SUBSET (1 .. n)) \ {{}}}
OffsetDirs(offs, n) == UNION {{DirOf({b + i : i \in S}) : S \in (SUBSET (1 .. n)) \ {{}}} : b \in offs}
\* long directories o+1 .. o+m with one run o+a .. o+b of missing files (b < m)
LongDir(o, m, a, b)   == [present |-> ((o + 1) .. (o + m)) \ ((o + a) .. (o + b)), first |-> IF a = 1 THEN o + b + 1 ELSE o + 1, cur |-> o + m]
LongDirs(offs, sizes, runs) ==
  UNION {UNION {{LongDir(o, m, ab[1], ab[2]) : ab \in {x \in runs : x[2] < m}} : m \in sizes} : o \in offs}

\* pause family (heavily skewed timestamps): complete or nearly complete directories 1 .. m, replication paused
\* after one or two states (near the oldest state, in the middle, near the newest); query times around the
\* pauses (on the dense side just before and just after) and the usual selection.  A plan: [d, pauses, qs].
NoRun == <<2, 1>>                                   \* LongDir with an empty run: nothing missing
PausePlaces(m) == {{1}, {m \div 2}, {m - 1}, {m - 10}, {m \div 2, m - 1}, {1, m \div 2}}
PauseRuns(m)   == {NoRun, <<m \div 4, (m \div 4) + 1>>}
PauseQueries(d, pauses) ==
  (SelectedQueries(d) \cup UNION {(2 * p - 5) .. (2 * p + 7) : p \in pauses} \cup {2 * p - 21 : p \in pauses}
     \cup {2 * p + 23 : p \in pauses}) \cap Queries(d)
PausePlans(sizes) ==
  UNION {UNION {{LET d == LongDir(0, m, ab[1], ab[2]) IN [d |-> d, pauses |-> ps, qs |-> PauseQueries(d, ps)]
                  : ps \in PausePlaces(m)} : ab \in PauseRuns(m)} : m \in sizes}
\* the Model does not see the time assignment (order-isomorphic): the plans only add directories x query times
PauseInit(sizes, devsets) == \E pl \in PausePlans(sizes) : LET b == RequestBound(pl.d) IN
                                \E q \in pl.qs, dev \in devsets : cs = CaseWith(pl.d, q, dev, b) /\ st = InitState
=============================================================================
