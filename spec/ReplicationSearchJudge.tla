----------------------- MODULE ReplicationSearchJudge -----------------------
(* Judge for C19.  Every recorded line is                                      *)
(*   [case |-> [kind, skew, style, prefix, unit, pauses, pauselen (the time     *)
(*              assignment), present (tuple), first, cur, q],                   *)
(*    got  |-> [outcome ("ok" | "error" | "hang"), seq, state_seq, sec, nsec,  *)
(*              count, reqs (tuple of [path, status, n]), ...]]                 *)
(* produced by harness/cmd/c19 from the real Datasource.XxxStateAt.            *)
EXTENDS ReplicationSearch, IOUtils, Json
Lines == ndJsonDeserialize(IOEnv.REC)

DirOfLine(ln)  == [present |-> {ln.case.present[i] : i \in 1 .. Len(ln.case.present)}, first |-> ln.case.first, cur |-> ln.case.cur]
CaseOfLine(ln) == CaseOf(DirOfLine(ln), ln.case.q, NoDevs)
RenderOfLine(ln) == [kind |-> ln.case.kind, skew |-> ln.case.skew, style |-> ln.case.style, prefix |-> ln.case.prefix,
                     unit |-> ln.case.unit, pauselen |-> ln.case.pauselen,
                     pauses |-> {ln.case.pauses[i] : i \in 1 .. Len(ln.case.pauses)}]

\* the search returned state n: sequence number (return value and State.SeqNum) and the timestamp read from its file
Returned(ln, n) == LET g == ln.got   r == RenderOfLine(ln) IN
  /\ g.outcome = "ok" /\ g.seq = n /\ g.state_seq = n
  /\ g.sec = Sec(r, TS(n)) /\ g.nsec = Nsec(r.kind, TS(n))

\* --- the property, clause by clause ---
J_Terminates(ln)   == ln.got.outcome # "hang"
J_Result(ln)       == Returned(ln, Want(CaseOfLine(ln)))
J_RequestBound(ln) == ln.got.count <= RequestBound(CaseOfLine(ln))
J_URLs(ln)         == \A i \in 1 .. Len(ln.got.reqs) :
                        WellFormedURL(RenderOfLine(ln), ln.got.reqs[i].path, ln.got.reqs[i].n)
Failed(ln) == {j \in {"Terminates", "Result", "RequestBound", "URLs"} :
                 CASE j = "Terminates"   -> ~J_Terminates(ln)
                   [] j = "Result"       -> ~J_Result(ln)
                   [] j = "RequestBound" -> ~J_RequestBound(ln)
                   [] j = "URLs"         -> ~J_URLs(ln)}
LineOK(ln) == WellFormedDir(DirOfLine(ln)) /\ Failed(ln) = {}

\* --- known findings: the signature holds on the case AND what was observed is what the model with that
\*     deviation does (so any other failure on the same input is still a violation).  A failure that the model
\*     without deviations shows as well is the findBound gap and nothing else. ---
Explains(ln, D) == LET o == Outcome([CaseOfLine(ln) EXCEPT !.dev = D]) IN
  IF ln.got.outcome = "hang" THEN o = -1 ELSE o >= 1 /\ Returned(ln, o)
KnownFindings(ln) == LET c == CaseOfLine(ln)   f == Failed(ln) IN
  {k \in {"KF_FindBoundGap", "KF_ProbeLoop", "KF_Boundary"} :
     CASE k = "KF_FindBoundGap" -> f = {"Result"} /\ KF_FindBoundGap(c) /\ Explains(ln, NoDevs)
       [] k = "KF_ProbeLoop"    -> "URLs" \notin f /\ ln.got.outcome = "hang" /\ KF_ProbeLoop(c) /\ ~Explains(ln, NoDevs)
                                     /\ \E D \in FixPatches : DevProbeLoops \in D /\ Explains(ln, D)
       [] k = "KF_Boundary"     -> f = {"Result"} /\ KF_Boundary(c) /\ ~Explains(ln, NoDevs)
                                     /\ \E D \in FixPatches : D \cap BoundaryDevs # {} /\ Explains(ln, D)}

Why(ln) == IF ~WellFormedDir(DirOfLine(ln)) THEN [failed |-> {"malformed-case"}, want |-> 0]
           ELSE [failed |-> Failed(ln), want |-> Want(CaseOfLine(ln)), bound |-> RequestBound(CaseOfLine(ln))]
ASSUME \A i \in 1 .. Len(Lines) :
          LineOK(Lines[i]) \/ PrintT(<<"BAD", ToJson([i |-> i, why |-> Why(Lines[i]),
                                               kf |-> IF WellFormedDir(DirOfLine(Lines[i])) THEN KnownFindings(Lines[i]) ELSE {}])>>)
ASSUME PrintT(<<"JUDGED", Len(Lines)>>)
JInit == cs = 0 /\ st = 0
JNext == UNCHANGED vars
=============================================================================
