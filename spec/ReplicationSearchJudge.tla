----------------------- MODULE ReplicationSearchJudge -----------------------
(* Judge for C19.  Every recorded line is                                      *)
(*   [case |-> [kind, skew, style, prefix, unit, pauses, pauselen (the time     *)
(*              assignment), present (tuple), first, cur, q, op,                *)
(*              sid, k (the k-th call of client history sid)],                  *)
(*    got  |-> [outcome ("ok" | "error" | "hang" | "crash" = the library call  *)
(*              panicked), seq, state_seq, sec, nsec,                           *)
(*              txn_max, txn_max_queried,                                       *)
(*              count, reqs (tuple of [path, status, n]), ...]]                 *)
(* produced by harness/cmd/c19 from the real Datasource.XxxStateAt /           *)
(* CurrentXxxState; the calls of one history (one directory record) were made  *)
(* in order k = 1, 2, ... in one fresh process against one server and are      *)
(* consecutive lines.                                                          *)
EXTENDS ReplicationSearch, IOUtils, Json
Lines == ndJsonDeserialize(IOEnv.REC)

DirOfLine(ln)  == [present |-> {ln.case.present[i] : i \in 1 .. Len(ln.case.present)}, first |-> ln.case.first, cur |-> ln.case.cur]
CaseOfLine(ln) == CaseOf(DirOfLine(ln), ln.case.q, NoDevs)
RenderOfLine(ln) == [kind |-> ln.case.kind, skew |-> ln.case.skew, style |-> ln.case.style, prefix |-> ln.case.prefix,
                     unit |-> ln.case.unit, pauselen |-> ln.case.pauselen, lay |-> ln.case.lay, lists |-> ln.case.lists, seam |-> ln.case.seam,
                     pauses |-> {ln.case.pauses[i] : i \in 1 .. Len(ln.case.pauses)}]

\* the search returned state n: sequence number (return value and State.SeqNum), the timestamp and the transaction
\* numbers read from its file (whatever layout the file has)
Returned(ln, n) == LET g == ln.got   r == RenderOfLine(ln) IN
  /\ g.outcome = "ok" /\ g.seq = n /\ g.state_seq = n
  /\ g.sec = Sec(r, TS(n)) /\ g.nsec = Nsec(r.kind, TS(n))
  /\ g.txn_max = TxnMax(r, n) /\ g.txn_max_queried = TxnMaxQueried(r, n)

\* --- the property, clause by clause ---
J_Terminates(ln)   == ln.got.outcome # "hang"
J_Result(ln)       == Returned(ln, Want(CaseOfLine(ln)))
J_RequestBound(ln) == ln.got.count <= RequestBound(CaseOfLine(ln))
J_URLs(ln)         == \A i \in 1 .. Len(ln.got.reqs) :
                        WellFormedURL(RenderOfLine(ln), ln.got.reqs[i].path, ln.got.reqs[i].n)
\* "for any replication directory ... looking up the state for a timestamp ... returns the first available state":
\* the answer is a function of the directory and the time, not of the calls made before.  Line i must give the
\* answer every earlier call of the same history with the same abstract time gave (the k-1 preceding lines).
Answer(ln) == <<ln.got.outcome, ln.got.seq, ln.got.state_seq, ln.got.sec, ln.got.nsec, ln.got.txn_max, ln.got.txn_max_queried>>
J_HistoryIndependent(i) == LET ln == Lines[i]   lo == IF i - ln.case.k + 1 < 1 THEN 1 ELSE i - ln.case.k + 1 IN
  \A j \in lo .. (i - 1) :
     (Lines[j].case.sid = ln.case.sid /\ Lines[j].case.q = ln.case.q) => Answer(Lines[j]) = Answer(ln)
FailedAt(i) == LET ln == Lines[i] IN
  {j \in {"Terminates", "Result", "RequestBound", "URLs", "HistoryIndependent"} :
     CASE j = "Terminates"         -> ~J_Terminates(ln)
       [] j = "Result"             -> ~J_Result(ln)
       [] j = "RequestBound"       -> ~J_RequestBound(ln)
       [] j = "URLs"               -> ~J_URLs(ln)
       [] j = "HistoryIndependent" -> ~J_HistoryIndependent(i)}
LineOK(i) == WellFormedDir(DirOfLine(Lines[i])) /\ FailedAt(i) = {}

\* --- known findings: the signature holds on the case AND what was observed is what the model with that
\*     deviation does (so any other failure on the same input is still a violation).  A failure that the model
\*     without deviations shows as well is the findBound gap and nothing else. ---
Explains(ln, D) == LET o == Outcome([CaseOfLine(ln) EXCEPT !.dev = D]) IN
  IF ln.got.outcome = "hang" THEN o = -1 ELSE o >= 1 /\ Returned(ln, o)
KnownFindings(i) == LET ln == Lines[i]   c == CaseOfLine(ln)   f == FailedAt(i) IN
  {k \in {"KF_FindBoundGap", "KF_ProbeLoop", "KF_Boundary"} :
     CASE k = "KF_FindBoundGap" -> f = {"Result"} /\ KF_FindBoundGap(c) /\ Explains(ln, NoDevs)
       [] k = "KF_ProbeLoop"    -> "URLs" \notin f /\ ln.got.outcome = "hang" /\ KF_ProbeLoop(c) /\ ~Explains(ln, NoDevs)
                                     /\ \E D \in FixPatches : DevProbeLoops \in D /\ Explains(ln, D)
       [] k = "KF_Boundary"     -> f = {"Result"} /\ KF_Boundary(c) /\ ~Explains(ln, NoDevs)
                                     /\ \E D \in FixPatches : D \cap BoundaryDevs # {} /\ Explains(ln, D)}

Why(i) == LET ln == Lines[i] IN
  IF ~WellFormedDir(DirOfLine(ln)) THEN [failed |-> {"malformed-case"}, want |-> 0]
  ELSE [failed |-> FailedAt(i), want |-> Want(CaseOfLine(ln)), bound |-> RequestBound(CaseOfLine(ln)), call |-> ln.case.k]
ASSUME \A i \in 1 .. Len(Lines) :
          LineOK(i) \/ PrintT(<<"BAD", ToJson([i |-> i, why |-> Why(i),
                                        kf |-> IF WellFormedDir(DirOfLine(Lines[i])) THEN KnownFindings(i) ELSE {}])>>)
ASSUME PrintT(<<"JUDGED", Len(Lines)>>)
JInit == cs = 0 /\ st = 0
JNext == UNCHANGED vars
=============================================================================
