CONSTANT Wide = FALSE
INIT JInit
NEXT JNext
CHECK_DEADLOCK FALSE
