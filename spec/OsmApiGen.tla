----------------------------- MODULE OsmApiGen -----------------------------
(* Case generation for C20: N complete cases = call configuration (from      *)
(* OsmApi!CallsVia) + environment script (limiter outcome, status, document),   *)
(* spread over the product space by index arithmetic seeded with SEED.       *)
EXTENDS OsmApi, IOUtils, Json

N    == atoi(IOEnv.N)
Seed == atoi(IOEnv.SEED) % 1000

\* enumerated with ctx = "bg"; one case in seven is then made with a caller-supplied deadline instead (control)
CallSeq == SetToSeq(CallsVia(Vias, {"bg"}))
NC      == Len(CallSeq)
Primes  == <<7919, 7907, 7901, 7883, 7879, 7877>>
Stride  == Primes[CHOOSE k \in DOMAIN Primes : NC % Primes[k] # 0 /\ \A j \in 1 .. k - 1 : NC % Primes[j] = 0]

\* every other case is answered with 200 (the element clauses need it), the rest spread over the error statuses
Non200    == SetToSeq(Statuses \ {200})
StatusSeq == FlattenSeq([i \in DOMAIN Non200 |-> <<200, Non200[i]>>])

\* most answers are delivered plainly; 4 of 32 large, 2 of 32 in two pieces, 1 of 32 both
DelivSeq == [k \in 1 .. 32 |-> CASE k % 8 = 3  -> Deliv(256, FALSE)
                                  [] k \in {6, 22} -> Deliv(0, TRUE)
                                  [] k = 14      -> Deliv(256, TRUE)
                                  [] OTHER       -> Plain]

Case(i) ==
  LET c0 == CallSeq[((i * Stride + Seed * 31) % NC) + 1]
      cc == IF (i + Seed) % 7 = 3 THEN [c0 EXCEPT !.ctx = "deadline"] ELSE c0
      h  == i * 9973 + Seed * 104729 + (i \div NC)
      st == StatusSeq[(h % Len(StatusSeq)) + 1]
      sh == Shapes[((h \div Len(StatusSeq)) % Len(Shapes)) + 1]
      ok == IF cc.lim = "set" THEN ((h \div 7) % 4) # 0 ELSE TRUE
      d  == DelivSeq[((h \div 11) % Len(DelivSeq)) + 1]
  IN  cc @@ [limok |-> ok, status |-> st, shape |-> sh, body |-> Body(cc.ep, sh, d)]

ASSUME ndJsonSerialize(IOEnv.OUT, [i \in 1 .. N |-> Case(i)])
ASSUME PrintT(<<"GEN", N, NC, Stride>>)
GInit == c = 0 /\ pc = 0 /\ pend = 0 /\ log = 0
GNext == UNCHANGED vars
=============================================================================
