----------------------------- MODULE OsmApiGen -----------------------------
(* Case generation for C20: N complete cases = call configuration (from      *)
(* OsmApi!Calls) + environment script (limiter outcome, status, document),   *)
(* spread over the product space by index arithmetic seeded with SEED.       *)
EXTENDS OsmApi, IOUtils, Json

N    == atoi(IOEnv.N)
Seed == atoi(IOEnv.SEED) % 1000

CallSeq == SetToSeq(Calls)
NC      == Len(CallSeq)
Primes  == <<7919, 7907, 7901, 7883, 7879, 7877>>
Stride  == Primes[CHOOSE k \in DOMAIN Primes : NC % Primes[k] # 0 /\ \A j \in 1 .. k - 1 : NC % Primes[j] = 0]

\* every other case is answered with 200 (the element clauses need it), the rest spread over the error statuses
Non200    == SetToSeq(Statuses \ {200})
StatusSeq == FlattenSeq([i \in DOMAIN Non200 |-> <<200, Non200[i]>>])

Case(i) ==
  LET cc == CallSeq[((i * Stride + Seed * 31) % NC) + 1]
      h  == i * 9973 + Seed * 104729 + (i \div NC)
      st == StatusSeq[(h % Len(StatusSeq)) + 1]
      sh == Shapes[((h \div Len(StatusSeq)) % Len(Shapes)) + 1]
      ok == IF cc.lim = "set" THEN ((h \div 7) % 4) # 0 ELSE TRUE
  IN  cc @@ [limok |-> ok, status |-> st, shape |-> sh, body |-> Body(cc.ep, sh)]

ASSUME ndJsonSerialize(IOEnv.OUT, [i \in 1 .. N |-> Case(i)])
ASSUME PrintT(<<"GEN", N, NC, Stride>>)
GInit == c = 0 /\ pc = 0 /\ pend = 0 /\ log = 0
GNext == UNCHANGED vars
=============================================================================
