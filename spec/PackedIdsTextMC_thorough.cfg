CONSTANTS MaxLen = 6 AlphabetName = "core"
INIT Init
NEXT Next
INVARIANT TextConforms
CHECK_DEADLOCK FALSE
