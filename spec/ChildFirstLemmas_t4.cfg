CONSTANTS
  N = 4
  MaxMem = 1
  MaxReq = 0
  Family = "flat"
  FlagFamily = "plain"
  WithBad = FALSE
  CanonicalReqs = FALSE
  MaxSeq = 4
  VersionSets <- MCVersions
  ReqLists <- MCReqs
  BadSets <- MCBad
  FlagSets <- MCFlags
INIT Init
NEXT LNext
CHECK_DEADLOCK FALSE
