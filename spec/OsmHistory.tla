----------------------------- MODULE OsmHistory -----------------------------
(* An OSM edit history as a generating state machine (input space of C11,  *)
(* C12; also usable by C13/C15).                                           *)
(*                                                                         *)
(* One parent element (a way or a relation) and NK child elements (nodes,  *)
(* ways or relations - the type is a rendering matter) are edited over     *)
(* abstract time 0 .. MaxT.  Every action appends exactly one version:     *)
(*                                                                         *)
(*   EditChild      a new visible version of a child (also creates it)     *)
(*   DeleteChild    a new invisible version of a visible child             *)
(*   UndeleteChild  a new visible version of a deleted child               *)
(*   EditParent     a new visible parent version with a chosen child list  *)
(*                  (children may repeat, enter and leave; also undeletes) *)
(*   DeleteParent   a new invisible parent version                         *)
(*   Tick           time passes.  It is folded into the edit actions: each *)
(*                  edit first lets dt >= 0 ticks pass (t \in Now .. MaxT) *)
(*                  so that the state is the history alone and TLC does    *)
(*                  not distinguish "history, clock" pairs.                *)
(*                                                                         *)
(* The time of a version is its commit time when commit times are known    *)
(* and its timestamp otherwise (the regime is an option of the annotation  *)
(* run, not of the history).  Several edits may carry the same time: child *)
(* edits in the same second as a parent version, several versions of one   *)
(* child in one second.                                                    *)
(*                                                                         *)
(* A history value (also the JSON shape of a generated case):              *)
(*   [kids |-> << <<[t, vis, cs], ...>>, ... >>,     one sequence per child *)
(*    par  |-> << [t, vis, cs, refs |-> <<[k, pre], ...>>], ... >>]         *)
(* An empty child sequence = the data source has no history for that id.   *)
(* pre = the reference was already annotated before the run (only the      *)
(* child filter looks at it).                                              *)
EXTENDS Integers, Sequences, FiniteSets, TLC

CONSTANTS NK,               \* child ids are 1 .. NK
          MaxV,             \* versions per child: a sequence indexed by child id
          MaxP,             \* parent versions
          MaxT,             \* last instant
          MaxDt,            \* at most this many ticks between two consecutive edits
          CsSet,            \* changeset ids (1 .. n)
          ParentCsFree,     \* TRUE: parent versions take any changeset; FALSE: version n is in changeset n
          RefLists,         \* the child lists a parent version may carry
          SameTimeParents,  \* may two parent versions share an instant?
          RefsMustExist     \* TRUE: a new parent version only lists children that are visible right now
                            \* (most of the unrestricted space is children created after their parent)

VARIABLE h

KidIds == 1 .. NK
Ver(t, vis, cs) == [t |-> t, vis |-> vis, cs |-> cs]
PVer(t, vis, cs, refs) == [t |-> t, vis |-> vis, cs |-> cs, refs |-> refs]
Ref(k, pre) == [k |-> k, pre |-> pre]
Last(s) == s[Len(s)]
MaxOf(S, d) == IF S = {} THEN d ELSE CHOOSE x \in S : \A y \in S : y <= x
MinOf(S, d) == IF S = {} THEN d ELSE CHOOSE x \in S : \A y \in S : x <= y

TimesOf(hh) == {hh.par[i].t : i \in 1 .. Len(hh.par)} \cup
               UNION {{hh.kids[k][i].t : i \in 1 .. Len(hh.kids[k])} : k \in 1 .. Len(hh.kids)}
Now(hh) == MaxOf(TimesOf(hh), 0)

(* ------------------------- declarative vocabulary -------------------------- *)
\* index of the version of a child that is current at time t: the last one with
\* time <= t (versions of one element are in version order, times never decrease);
\* 0 = the child does not exist yet
CurrentAt(cl, t) == MaxOf({i \in 1 .. Len(cl) : cl[i].t <= t}, 0)

WellFormedKid(cl) ==
  /\ \A i \in 1 .. Len(cl) - 1 : cl[i].t <= cl[i + 1].t
  /\ Len(cl) > 0 => cl[1].vis
  /\ \A i \in 1 .. Len(cl) - 1 : ~cl[i].vis => cl[i + 1].vis        \* nothing but an undelete follows a delete
WellFormedPar(p) ==
  /\ \A i \in 1 .. Len(p) - 1 : p[i].t <= p[i + 1].t
  /\ Len(p) > 0 => p[1].vis
  /\ \A i \in 1 .. Len(p) - 1 : ~p[i].vis => p[i + 1].vis
WellFormed(hh) == (\A k \in 1 .. Len(hh.kids) : WellFormedKid(hh.kids[k])) /\ WellFormedPar(hh.par)

(* -------------------------------- actions ---------------------------------- *)
HInit == h = [kids |-> [k \in KidIds |-> <<>>], par |-> <<>>]

AppendKid(k, v) == h' = [h EXCEPT !.kids[k] = Append(@, v)]

EditChild(k, t, cs) ==
  /\ Len(h.kids[k]) < MaxV[k]
  /\ (IF h.kids[k] = <<>> THEN TRUE ELSE Last(h.kids[k]).vis)
  /\ AppendKid(k, Ver(t, TRUE, cs))

DeleteChild(k, t, cs) ==
  /\ Len(h.kids[k]) < MaxV[k]
  /\ (IF h.kids[k] = <<>> THEN FALSE ELSE Last(h.kids[k]).vis)
  /\ AppendKid(k, Ver(t, FALSE, cs))

UndeleteChild(k, t, cs) ==
  /\ Len(h.kids[k]) < MaxV[k]
  /\ (IF h.kids[k] = <<>> THEN FALSE ELSE ~Last(h.kids[k]).vis)
  /\ AppendKid(k, Ver(t, TRUE, cs))

ParentTimeOK(t) == IF h.par = <<>> \/ SameTimeParents THEN TRUE ELSE t > Last(h.par).t

RefsExist(refs) == \A j \in 1 .. Len(refs) :
   IF h.kids[refs[j].k] = <<>> THEN FALSE ELSE Last(h.kids[refs[j].k]).vis

EditParent(t, cs, refs) ==
  /\ Len(h.par) < MaxP
  /\ ParentTimeOK(t)
  /\ RefsMustExist => RefsExist(refs)
  /\ h' = [h EXCEPT !.par = Append(@, PVer(t, TRUE, cs, refs))]

\* a deleted version keeps the child list of its predecessor, so that "deleted
\* parent versions receive no annotations" has something to be checked on
DeleteParent(t, cs) ==
  /\ Len(h.par) < MaxP
  /\ (IF h.par = <<>> THEN FALSE ELSE Last(h.par).vis)
  /\ ParentTimeOK(t)
  /\ h' = [h EXCEPT !.par = Append(@, PVer(t, FALSE, cs, Last(h.par).refs))]

\* Tick is the choice of t >= Now(h).  The first edit happens at time 0 and at most MaxDt
\* ticks pass between two consecutive edits (histories that differ only by a shift in time
\* or by the length of a gap longer than every threshold are the same history).
Empty(hh) == hh.par = <<>> /\ \A k \in 1 .. Len(hh.kids) : hh.kids[k] = <<>>
EditTimes == IF Empty(h) THEN {0} ELSE {t \in Now(h) .. MaxT : t <= Now(h) + MaxDt}
ParentCs == IF ParentCsFree THEN CsSet
            ELSE {MinOf({c \in CsSet : c > Len(h.par)}, MaxOf(CsSet, 0))}
HNext ==
  \E t \in EditTimes :
     \/ \E cs \in CsSet : \E k \in KidIds : EditChild(k, t, cs) \/ DeleteChild(k, t, cs) \/ UndeleteChild(k, t, cs)
     \/ \E cs \in ParentCs : (\E refs \in RefLists : EditParent(t, cs, refs)) \/ DeleteParent(t, cs)

HistoryOK == WellFormed(h) /\ Len(h.par) <= MaxP /\ \A k \in KidIds : Len(h.kids[k]) <= MaxV[k]
=============================================================================
