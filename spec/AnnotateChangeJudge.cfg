CONSTANTS
  HMax = 1
  SingleKinds = {}
  BothVis = FALSE
  PairVers = {}
  NRandom = 0
  BuildMax = 0
  BuildIds = {}
  WithFamilies = FALSE
  StaticInit = TRUE
INIT JInit
NEXT JNext
CHECK_DEADLOCK FALSE
