CONSTANTS
  HMax = 1
  BothVis = FALSE
  PairVers = {}
  NRandom = 0
  BuildMax = 0
  BuildIds = {}
INIT JInit
NEXT JNext
CHECK_DEADLOCK FALSE
