\* design level, larger shapes: random behaviours (-simulate) of generating machine + algorithms, same invariants
CONSTANT Shapes <- S_Big
CONSTANT MaxPieces = 4
CONSTANT MaskMode = "basic"
CONSTANT Tasks = {"convert", "annotate"}
CONSTANT Patterns = {"all"}
INIT Init
NEXT Next
INVARIANT ConvertRecovers
INVARIANT AnnotateMarks
INVARIANT Deterministic
INVARIANT RemoveIsRemoveAt
INVARIANT NoJoinReversalWhenAnnotated
INVARIANT JoinEmitsRings
