\* quick tier, design-level model checking, generating-machine half: every change of <= 2 elements (ids 1..3,
\* versions 2..3, <= 2 per cell) over two worlds of histories
CONSTANTS
  HMax = 0
  SingleKinds = {}
  BothVis = FALSE
  PairVers = {}
  NRandom = 0
  BuildMax = 2
  BuildIds = {1, 2, 3}
  WithFamilies = FALSE
  StaticInit = FALSE
INIT Init
NEXT Next
INVARIANTS ModelIsExpected ModelMeetsJudge PrefixInv ScanInv
CHECK_DEADLOCK FALSE
