\* one Change value next to the OSM value: AppendCreate / AppendModify / AppendDelete (objects shared between the
\* sub-documents), Change.HistoryDatasource forcing Visible, OSM.HistoryDatasource
CONSTANTS
  Ids = {1, 2}
  Vers = {1}
  Kinds = {"node", "relation"}
  Targets = {"doc", "create", "modify", "delete"}
  VisVals = {TRUE, FALSE}
  Families = {"append", "reappend", "chgds", "docds"}
  MaxOps = 3
  TagKeys = {}
  TagVals = {}
  RefKinds = {}
  RefVers = {}
  Coords = {}
SPECIFICATION Spec
INVARIANTS JudgeQueriesHold ObjectsOrder IdsAgree WellTyped SortsOK DsContents
PROPERTIES JudgeStepsHold Frame
CHECK_DEADLOCK FALSE
