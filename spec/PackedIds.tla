------------------------------ MODULE PackedIds ------------------------------
(* C10 - packed object / element / feature identifiers, design level.        *)
(*                                                                            *)
(* The layout over unbounded Int.  An identifier is one integer made of      *)
(* three fields:                                                              *)
(*      | type field (7 bits) | reference (RB values) | version (VB values) | *)
(* In the real layout VB = 2^16, RB = 2^40 and the type field occupies bits  *)
(* 56..62 of an int64 (bit 63, the sign, is never set).  The widths are      *)
(* constants so that the same module is                                      *)
(*   - proved for the real widths by Apalache (PackedIdsApa.tla, symbolic,   *)
(*     all 7 * 2^40 * 2^16 identifiers and all pairs of them), and           *)
(*   - model-checked exhaustively by TLC for scaled widths together with the *)
(*     mask-and-shift transcription of the Go code (PackedIdsImpl.tla).      *)
(* Everything here is arithmetic (+, *, \div, %) - no bit operations - so    *)
(* it is the declarative statement of what the layout means.                 *)
EXTENDS Integers

CONSTANTS
  \* @type: Int;
  VB,      \* number of version values   (real layout 65536)
  \* @type: Int;
  RB       \* number of reference values (real layout 1099511627776)

TB == 128  \* number of values of the type field (7 bits above the reference)

\* value of the type field per kind (feature.go:68-74): the kind nibble sits in
\* the upper half of the field, bounds uses bit 3 of the lower half
CodeBounds    == 8
CodeNode      == 16
CodeWay       == 32
CodeRelation  == 48
CodeChangeset == 64
CodeNote      == 80
CodeUser      == 96
Codes         == {CodeBounds, CodeNode, CodeWay, CodeRelation, CodeChangeset, CodeNote, CodeUser}
ElementCodes  == {CodeNode, CodeWay, CodeRelation}      \* kinds that have element and feature ids (and versions)

Unit == RB * VB           \* weight of the type field
Top  == TB * Unit         \* first value that does not fit (2^63 in the real layout)

(* --------------------------- the layout ---------------------------------- *)
Pack(c, r, v) == c * Unit + r * VB + v

Ver(id)  == id % VB
Ref(id)  == (id \div VB) % RB
Code(id) == (id \div Unit) % TB

FeatureOf(id)     == id - Ver(id)        \* ElementID.FeatureID: same kind and reference, no version
ElementOf(fid, v) == fid + v             \* FeatureID.ElementID(v)

\* (kind, reference, version) order; the kind order is the order of the type
\* field, in particular node < way < relation
LexLess(c1, r1, v1, c2, r2, v2) ==
  c1 < c2 \/ (c1 = c2 /\ (r1 < r2 \/ (r1 = r2 /\ v1 < v2)))

KindOrderIsNodeWayRelation == CodeNode < CodeWay /\ CodeWay < CodeRelation

(* --------------------- the obligations (Judges) -------------------------- *)
(* Stated for given field values; the provers quantify: Apalache over        *)
(* c \in Codes, r \in [0, RB), v \in [0, VB) symbolically, TLC over all of   *)
(* them for the scaled widths.                                               *)
RoundTripAt(c, r, v) ==
  LET id == Pack(c, r, v) IN Code(id) = c /\ Ref(id) = r /\ Ver(id) = v

InjectiveAt(c1, r1, v1, c2, r2, v2) ==
  (Pack(c1, r1, v1) = Pack(c2, r2, v2)) <=> (c1 = c2 /\ r1 = r2 /\ v1 = v2)

OrderIsoAt(c1, r1, v1, c2, r2, v2) ==
  (Pack(c1, r1, v1) < Pack(c2, r2, v2)) <=> LexLess(c1, r1, v1, c2, r2, v2)

FitsAt(c, r, v) == 0 < Pack(c, r, v) /\ Pack(c, r, v) < Top

FeatureAt(c, r, v) ==
  /\ FeatureOf(Pack(c, r, v)) = Pack(c, r, 0)
  /\ ElementOf(Pack(c, r, 0), v) = Pack(c, r, v)
  /\ Code(FeatureOf(Pack(c, r, v))) = c
  /\ Ref(FeatureOf(Pack(c, r, v))) = r

\* feature ids (version field 0) are ordered by (kind, reference)
FeatureOrderAt(c1, r1, c2, r2) ==
  (Pack(c1, r1, 0) < Pack(c2, r2, 0)) <=> (c1 < c2 \/ (c1 = c2 /\ r1 < r2))
=============================================================================
