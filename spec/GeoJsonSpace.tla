--------------------------- MODULE GeoJsonSpace ---------------------------
(* C17 - the input space of GeoJson.tla: abstract OSM data sets.            *)
(* Structured exhaustive families (one per mechanism of the statement) plus *)
(* a seeded random sample of the full product space (<= 3 nodes, <= 2 ways  *)
(* over present / missing / annotated node refs, <= 2 relations), and a     *)
(* family of real-size routes (up to 30 sections, 90 nodes, 60 ways).       *)
(* Kept in its own module because TLC evaluates constant definitions        *)
(* eagerly: the Judge module must not pay for enumerating the space.        *)
EXTENDS GeoJson, Randomization

(* ======================================================================= *)
(* Input space                                                             *)
(* ======================================================================= *)
P(i) == CASE i = 1 -> <<1, 1>> [] i = 2 -> <<4, 1>> [] i = 3 -> <<0, 3>>     \* 1 -> 2 -> 3 runs counter-clockwise; 3 on an axis
          [] i = 8 -> <<3, 0>> [] i = 9 -> <<5, 4>>                          \* 8, 9: ids of nodes never in the data set; 8 on an axis
M0 == ZeroMeta
MFull == [timestamp |-> 2, version |-> 3, changeset |-> 4, user |-> 5, uid |-> 6]
MVer  == [ZeroMeta EXCEPT !.version = 1]
MTime == [ZeroMeta EXCEPT !.timestamp = 1, !.uid = 2]
MPart == [ZeroMeta EXCEPT !.changeset = 7, !.user = 8]
MetaMenu == {M0, MFull, MVer, MTime, MPart}

TNone == << >>
\* incl. an interesting key with an EMPTY value (still a tag), alone and next to an uninteresting tag
NodeTagMenu == {TNone, << <<"source", "survey">> >>, << <<"created_by", "JOSM">>, <<"source:ref", "x">> >>,
                << <<"amenity", "cafe">> >>, << <<"source", "s">>, <<"name", "n">> >>,
                << <<"fixme", "">> >>, << <<"source", "s">>, <<"highway", "">> >>}
WayTagMenu == {TNone, << <<"source", "s">> >>, << <<"highway", "residential">> >>, << <<"building", "yes">> >>,
               << <<"building", "yes">>, <<"area", "no">> >>, << <<"highway", "pedestrian">>, <<"area", "yes">> >>,
               << <<"natural", "coastline">>, <<"name", "w">> >>,
               << <<"highway", "">> >>, << <<"created_by", "x">>, <<"fixme", "">> >>, << <<"building", "">>, <<"source", "">> >>}
RelExtraMenu == {TNone, << <<"name", "r">> >>, << <<"building", "yes">> >>, << <<"source", "s">> >>}
RelKinds == {"route", "multipolygon", "boundary", "site", ""}
RefMenu == {<<1, 2>>, <<1, 2, 3>>, <<1, 2, 3, 1>>, <<1, 3, 2, 1>>, <<2, 3>>, <<3, 2>>, <<3, 1>>, <<1>>, <<9>>,
            <<1, 9, 2>>, <<9, 1, 2, 3, 9>>, <<1, 2, 9, 8, 1>>, <<1, 1>>, <<2, 3, 1, 2>>, <<1, 2, 3, 8, 1>>, <<8, 9>>, << >>}

N(i, loc, tags, meta) == [id |-> i, xy |-> IF loc THEN P(i) ELSE Zero, tags |-> tags, meta |-> meta]
\* Where a way node's coordinates can come from is decided per way NODE: the way node itself may carry them
\* (annotated, mask[k] = TRUE) and / or the node element of that id may be in the data set - both, either, or neither.
\* WM takes the annotation mask of the way (one BOOLEAN per ref); W annotates all refs or none.
MaskKinds == {"none", "all", "first", "rest", "odd", "last"}
MaskOf(kind, n) == [k \in 1 .. n |-> CASE kind = "none" -> FALSE [] kind = "all" -> TRUE [] kind = "first" -> k = 1
                                          [] kind = "rest" -> k > 1 [] kind = "odd" -> k % 2 = 1 [] kind = "last" -> k = n]
AllMasks(n) == [1 .. n -> BOOLEAN]
WM(i, refs, mask, tags, meta) ==
  [id |-> i, refs |-> [k \in DOMAIN refs |-> IF mask[k] THEN <<refs[k], P(refs[k])[1], P(refs[k])[2]>> ELSE <<refs[k], 0, 0>>],
   tags |-> tags, meta |-> meta]
W(i, refs, ann, tags, meta) ==
  [id |-> i, refs |-> [k \in DOMAIN refs |-> IF ann THEN <<refs[k], P(refs[k])[1], P(refs[k])[2]>> ELSE <<refs[k], 0, 0>>],
   tags |-> tags, meta |-> meta]
R(i, kind, extra, members, meta) ==
  [id |-> i, tags |-> (IF kind = "" THEN << >> ELSE << <<"type", kind>> >>) \o extra, members |-> members, meta |-> meta]
M(t, ref, role) == [t |-> t, ref |-> ref, role |-> role]
\* (the id classes of families F1..F7 are dealt out by GeoJsonGen among classes that fit; F8 and the sample carry their own)
DS(fam, ns, ws, rs) == [fam |-> fam, nodes |-> ns, ways |-> ws, rels |-> rs, ids |-> SmallIds]
Ids(n, w, r) == [node |-> n, way |-> w, relation |-> r]
Plain(i) == N(i, TRUE, TNone, M0)

\* the part of the space the buildPolygon transcription covers (see PolyResult)
InSpace(ds) == \A i \in DOMAIN ds.rels : IsPoly(ds.rels[i]) =>
   Cardinality({j \in DOMAIN ds.rels[i].members :
                  ds.rels[i].members[j].t = "way" /\ ds.rels[i].members[j].role \in {"inner", "outer"}}) <= 2

CONSTANTS Tier,        \* "quick" | "thorough"
          SampleN      \* size of the random sample of the full space
Thorough == Tier = "thorough"

\* F1 - node rule: every attribute combination of node 1 in every context
F1 ==
  LET ctx(n) == { DS("F1", <<n>>, << >>, << >>),
                  DS("F1", <<n, Plain(2)>>, << W(1, <<1, 2>>, FALSE, TNone, M0) >>, << >>),
                  DS("F1", <<Plain(2), n>>, << W(1, <<2, 1>>, TRUE, << <<"highway", "residential">> >>, M0) >>, << >>),
                  DS("F1", <<n, Plain(2)>>, << W(1, <<1, 2>>, FALSE, TNone, M0) >>,
                     << R(1, "site", TNone, << M("node", 1, "stop") >>, M0) >>),
                  DS("F1", <<n, Plain(2)>>, << W(1, <<1, 2>>, FALSE, TNone, M0) >>,
                     << R(1, "route", << <<"name", "r">> >>, << M("way", 1, ""), M("node", 1, "") >>, MVer) >>),
                  DS("F1", <<n>>, << >>, << R(2, "", TNone, << M("node", 1, ""), M("node", 1, "x") >>, M0) >>),
                  DS("F1", <<n, Plain(2), Plain(3)>>, << W(1, <<1, 2>>, FALSE, TNone, M0), W(2, <<3, 1>>, FALSE, TNone, MFull) >>, << >>),
                  DS("F1", <<n, Plain(2)>>, << W(2, <<2, 9>>, FALSE, TNone, M0) >>, << R(1, "site", TNone, << M("node", 2, "") >>, M0) >>) }
  IN UNION {ctx(N(1, loc, tags, meta)) : loc \in BOOLEAN, tags \in NodeTagMenu,
                                          meta \in IF Thorough THEN MetaMenu ELSE {M0, MVer, MFull}}

\* F2 - way geometry: one way, every ref shape x tag class x coordinate source x node presence
F2 ==
  LET pres == IF Thorough THEN {<<p1, p2, p3>> : p1 \in {"y", "n"}, p2 \in {"y", "n", "0"}, p3 \in {"y", "n"}}
              ELSE {<<"y", "y", "y">>, <<"n", "0", "y">>}
      nodes(p) == FlattenSeq([i \in 1 .. 3 |-> IF p[i] = "y" THEN << Plain(i) >> ELSE IF p[i] = "0" THEN << N(i, FALSE, TNone, MVer) >> ELSE << >>])
      \* partially annotated ways: thorough every mask of every ref shape, quick three kinds of mask
      partial == IF Thorough
                 THEN UNION {{<<refs, m>> : m \in AllMasks(Len(refs))} : refs \in RefMenu}
                 ELSE {<<refs, MaskOf(k, Len(refs))>> : refs \in RefMenu, k \in {"first", "rest", "odd"}}
      ppres == IF Thorough THEN {<<"y", "y", "y">>, <<"n", "0", "y">>, <<"y", "n", "y">>, <<"y", "y", "n">>} ELSE pres
  IN {DS("F2", nodes(p), << WM(1, rm[1], rm[2], tags, MVer) >>, << >>) :
         p \in ppres, rm \in partial,
         tags \in {TNone, << <<"building", "yes">> >>} \cup (IF Thorough THEN {<< <<"highway", "pedestrian">>, <<"area", "yes">> >>} ELSE {})}
     \cup
     {DS("F2", nodes(p), << W(1, refs, ann, tags, IF ann THEN MPart ELSE M0) >>, << >>) :
         p \in pres, refs \in RefMenu, ann \in BOOLEAN,
         tags \in IF Thorough THEN WayTagMenu ELSE WayTagMenu \ {<< <<"source", "s">> >>, << <<"building", "">>, <<"source", "">> >>}}

\* F3 - routes: two ways in every relative position, member lists incl. missing / repeated / single
RoutePairs == {<< <<1, 2>>, <<2, 3>> >>, << <<1, 2>>, <<3, 2>> >>, << <<2, 1>>, <<2, 3>> >>, << <<2, 1>>, <<3, 2>> >>,
               << <<1, 2, 3>>, <<3, 1>> >>, << <<1, 2>>, <<9, 3>> >>, << <<1, 2, 3, 1>>, <<1, 9>> >>,
               << <<1, 2>>, <<1, 2>> >>, << <<1, 2>>, <<3>> >>, << <<1, 2, 3, 1>>, <<2, 3>> >>,
               << <<1, 9, 2>>, <<2, 8, 3>> >>, << <<1, 2>>, <<8, 9>> >>, << <<1, 9, 2, 3>>, <<3, 1>> >>}
RouteMembers == {<< M("way", 1, ""), M("way", 2, "") >>, << M("way", 2, "reverse"), M("way", 1, "") >>, << M("way", 1, "") >>,
                 << M("way", 1, ""), M("way", 7, "") >>, << M("way", 1, ""), M("way", 1, "") >>,
                 << M("node", 3, "stop"), M("way", 2, ""), M("way", 1, "") >>, << M("way", 7, "") >>}
F3 ==
  {DS("F3", IF ann THEN << Plain(1), Plain(3) >> ELSE << Plain(1), Plain(2), Plain(3) >>,
      << W(1, pr[1], ann, tg[1], M0), W(2, pr[2], FALSE, tg[2], MTime) >>,
      << R(1, "route", ex, mem, MFull) >>) :
     pr \in RoutePairs, mem \in RouteMembers, ann \in BOOLEAN,
     tg \in {<<TNone, TNone>>, << << <<"source", "s">> >>, << <<"building", "yes">> >> >>,
             << << <<"highway", "">> >>, << <<"created_by", "x">>, <<"fixme", "">> >> >>} \cup
            (IF Thorough THEN {<< << <<"highway", "residential">> >>, TNone >>} ELSE {}),
     ex \in IF Thorough THEN {TNone, << <<"name", "r">> >>} ELSE {TNone}}

\* F4 - multipolygon / boundary relations, trivial shapes only (ring assembly is C16)
PolyMembers == {<< M("way", 1, "outer") >>, << M("way", 1, "outer"), M("way", 2, "inner") >>, << M("way", 1, "inner") >>,
                << M("way", 1, "outer"), M("way", 7, "outer") >>, << M("way", 1, "outer"), M("way", 2, "outer") >>,
                << M("way", 1, "inner"), M("way", 2, "inner") >>, << M("way", 1, "") >>,
                << M("way", 7, "outer"), M("way", 1, "inner") >>, << M("way", 1, "outer"), M("node", 1, "admin_centre") >>}
TFix == << <<"fixme", "">> >>                      \* an interesting key with an empty value
W2Plain == << W(2, <<1, 2, 3, 1>>, FALSE, TNone, M0) >>
W2Named == << W(2, <<2, 3>>, TRUE, << <<"name", "i">> >>, M0) >>
W2Fix   == << W(2, <<1, 2, 3, 1>>, FALSE, << <<"source", "s">>, <<"fixme", "">> >>, M0) >>
F4of(refsS, t1S, w2S, kindS, exS) ==
  {DS("F4", << Plain(1), Plain(2), Plain(3) >>,
      << W(1, refs, FALSE, t1, MVer) >> \o w2,
      << R(1, kind, ex, mem, MTime) >>) :
     refs \in refsS, t1 \in t1S, w2 \in w2S, kind \in kindS, ex \in exS, mem \in PolyMembers}
F4a ==
  IF Thorough
  THEN F4of({<<1, 2, 3, 1>>, <<1, 3, 2, 1>>, <<1, 2, 3>>, <<1, 2, 9, 1>>},
            {TNone, << <<"building", "yes">> >>, << <<"name", "w">> >>, TFix},
            {W2Plain, W2Named, W2Fix, << >>}, {"multipolygon", "boundary"}, RelExtraMenu)
  ELSE F4of({<<1, 2, 3, 1>>, <<1, 3, 2, 1>>, <<1, 2, 3>>},
            {TNone, << <<"building", "yes">> >>, << <<"name", "w">> >>},
            {W2Plain, W2Named}, {"multipolygon"}, RelExtraMenu \ {<< <<"source", "s">> >>})
       \cup F4of({<<1, 2, 3, 1>>}, {TFix}, {W2Plain, W2Fix}, {"multipolygon"}, {TNone, << <<"name", "r">> >>})
       \cup F4of({<<1, 3, 2, 1>>}, {TNone, << <<"building", "yes">> >>}, {W2Fix}, {"multipolygon"}, {TNone, << <<"building", "yes">> >>})
F4b ==
  {DS("F4", << Plain(1), Plain(2), Plain(3) >>,
      << W(1, <<1, 2, 3, 1>>, FALSE, t1, M0), W(2, <<1, 3, 2, 1>>, FALSE, TNone, M0) >>,
      << R(1, "multipolygon", ex, mem, M0), r2 >>) :
     t1 \in {TNone, << <<"building", "yes">> >>, << <<"name", "w">> >>},
     ex \in {TNone, << <<"name", "r">> >>, << <<"building", "yes">> >>},
     mem \in {<< M("way", 1, "outer") >>, << M("way", 1, "outer"), M("way", 2, "inner") >>},
     r2 \in {R(2, "multipolygon", TNone, << M("way", 1, "outer") >>, MVer),
             R(2, "boundary", << <<"source", "s">> >>, << M("way", 1, "outer"), M("way", 2, "inner") >>, M0),
             R(2, "multipolygon", << <<"name", "q">> >>, << M("way", 1, "outer") >>, M0),
             R(2, "route", TNone, << M("way", 1, "") >>, M0),
             R(2, "site", TNone, << M("way", 1, "x"), M("relation", 1, "sub") >>, M0),
             R(2, "multipolygon", TNone, << M("way", 2, "outer"), M("way", 1, "inner") >>, M0)}}

\* F5 - memberships: repeated members, different roles, relation members, two relations with different tags
MemberOpt == {M("node", 1, ""), M("node", 1, "stop"), M("node", 9, ""), M("way", 1, ""), M("way", 1, "outer"),
              M("way", 7, ""), M("relation", 1, ""), M("relation", 2, "sub")}
F5 ==
  {DS("F5", << N(1, TRUE, TNone, MFull), Plain(2) >>, << W(1, <<1, 2>>, FALSE, << <<"highway", "residential">> >>, MFull) >>,
      << R(1, kk[1], << <<"name", "a">> >>, << m1, m2 >>, MFull), R(2, kk[2], << <<"ref", "b">> >>, << m3 >>, M0) >>) :
     kk \in IF Thorough THEN {<<"route", "">>, <<"site", "route">>} ELSE {<<"site", "route">>}, m1 \in MemberOpt, m2 \in MemberOpt,
     m3 \in {M("node", 1, "via"), M("way", 1, ""), M("relation", 1, "")}}

\* F6 - metadata: every meta class on every element type
F6 ==
  {DS("F6", << N(1, TRUE, << <<"amenity", "cafe">> >>, mn), Plain(2), N(3, FALSE, TNone, mn) >>,
      << W(1, <<1, 2>>, FALSE, TNone, mw) >>,
      << R(1, "route", TNone, << M("way", 1, "") >>, mr) >>) :
     mn \in MetaMenu, mw \in IF Thorough THEN MetaMenu ELSE {M0, MFull, MTime}, mr \in IF Thorough THEN MetaMenu ELSE {M0, MFull, MPart}}

\* F7 - real-size routes: n disjoint sections, each made of a first way [a, b] and a later member that
\* continues it ([b, c], or listed the other way round [c, b]); members out of travel order (all first
\* ways in some permutation, then the continuations in another), or in travel order; untagged or tagged.
\* Section i uses nodes 3i-2, 3i-1, 3i and ways 2i-1, 2i; all nodes on distinct grid points.
GridXY(k) == <<1 + ((k - 1) % 10), 1 + ((k - 1) \div 10)>>
Perm(kind, n, i) == CASE kind = "id" -> i [] kind = "rev" -> n + 1 - i [] kind = "mul" -> ((i * 7) % n) + 1   \* n coprime with 7
BigRoute(n, ord, tags, contRev) ==
  LET way(j) == LET i == (j + 1) \div 2 IN
                IF j % 2 = 1 THEN W(j, <<3 * i - 2, 3 * i - 1>>, FALSE, tags, M0)
                ELSE W(j, IF contRev THEN <<3 * i, 3 * i - 1>> ELSE <<3 * i - 1, 3 * i>>, FALSE, tags, IF i = 1 THEN MVer ELSE M0)
      firsts == [i \in 1 .. n |-> M("way", 2 * Perm(ord[1], n, i) - 1, "")]
      conts  == [i \in 1 .. n |-> M("way", 2 * Perm(ord[2], n, i), IF i = 2 THEN "forward" ELSE "")]
      members == IF ord[1] = "travel" THEN [j \in 1 .. 2 * n |-> M("way", j, "")] ELSE firsts \o conts
  IN DS("F7", [k \in 1 .. 3 * n |-> [id |-> k, xy |-> GridXY(k), tags |-> TNone, meta |-> M0]],
        [j \in 1 .. 2 * n |-> way(j)],
        << R(1, "route", << <<"ref", "7">> >>, members, MVer) >>)
F7 ==
  {BigRoute(n, ord, tags, contRev) :
     n \in IF Thorough THEN {2, 3, 10, 11, 12, 13, 20, 25, 30} ELSE {3, 11, 12, 25},
     ord \in {<<"id", "id">>, <<"mul", "rev">>, <<"rev", "mul">>, <<"travel", "travel">>},
     tags \in {TNone, << <<"highway", "residential">> >>},
     contRev \in BOOLEAN}

\* F8 - id classes: data sets in which every kind of reference occurs (way-node refs incl. a missing node, member
\* refs to nodes / ways / relations incl. missing ones, route, old-style and tagged multipolygon, boundary with two
\* outers, a node that shares its number with a member of another type) x id classes per element type:
\* negative ids (-1, -2, ...), ids around 2^31 and 2^32, 2^40-1 downwards, 2^40 upwards, 2^40+7 upwards.
IdBases ==
  { DS("F8", << Plain(1), N(2, TRUE, << <<"amenity", "cafe">> >>, MVer), Plain(3) >>,
       << W(1, <<1, 2>>, FALSE, << <<"highway", "residential">> >>, MFull), W(2, <<2, 3>>, FALSE, TNone, M0) >>,
       << R(1, "route", << <<"name", "r">> >>, << M("way", 1, ""), M("way", 2, ""), M("node", 3, "stop") >>, MVer),
          R(2, "site", TNone, << M("relation", 1, "sub"), M("way", 1, ""), M("node", 1, "") >>, M0) >>),
    DS("F8", << Plain(1), Plain(2), Plain(3) >>,
       << W(1, <<1, 2, 3, 1>>, FALSE, << <<"building", "yes">> >>, MVer), W(2, <<1, 3, 2, 1>>, FALSE, TNone, M0) >>,
       << R(1, "multipolygon", TNone, << M("way", 1, "outer") >>, M0),
          R(2, "multipolygon", << <<"name", "r">> >>, << M("way", 2, "outer"), M("way", 1, "inner") >>, MFull) >>),
    DS("F8", << Plain(1), Plain(2) >>,
       << W(1, <<1, 2>>, FALSE, TNone, M0) >>,
       << R(1, "site", << <<"name", "s">> >>, << M("way", 1, "x"), M("relation", 2, "y") >>, M0),
          R(2, "route", TNone, << M("way", 1, "") >>, M0) >>),
    DS("F8", << Plain(1), Plain(2), N(3, TRUE, TNone, MFull) >>,
       << W(1, <<1, 9, 2>>, FALSE, << <<"highway", "path">> >>, M0), W(2, <<9, 1, 2, 3, 9>>, TRUE, << <<"landuse", "grass">> >>, MPart) >>,
       << R(1, "route", TNone, << M("way", 1, ""), M("way", 7, ""), M("node", 9, "") >>, MTime) >>),
    DS("F8", << Plain(1), Plain(2), Plain(3) >>,
       << W(1, <<1, 2, 3, 1>>, FALSE, TNone, M0), W(2, <<1, 3, 2, 1>>, TRUE, TNone, M0) >>,
       << R(1, "boundary", << <<"name", "b">> >>, << M("way", 1, "outer"), M("way", 7, "outer") >>, MVer),
          R(2, "multipolygon", TNone, << M("way", 2, "inner"), M("node", 1, "label") >>, M0) >>) }
IdTriples ==
  IF Thorough THEN {Ids(n, w, r) : n \in IdClasses, w \in IdClasses, r \in IdClasses}
  ELSE {Ids(c, "small", "small") : c \in IdClasses} \cup {Ids("small", c, "small") : c \in IdClasses}
       \cup {Ids("small", "small", c) : c \in IdClasses} \cup {Ids(c, c, c) : c \in IdClasses}
       \cup {Ids("neg", "neg", "small"), Ids("neg", "small", "neg"), Ids("small", "neg", "neg"), Ids("at40", "over40", "neg"),
              Ids("over40", "neg", "top40"), Ids("i31", "at40", "i32"), Ids("top40", "i32", "over40")}
F8 == {[b EXCEPT !.ids = t] : b \in IdBases, t \in IdTriples}

\* partially annotated ways as route members and as multipolygon rings (all node elements present)
F3m ==
  {DS("F3", << Plain(1), Plain(2), Plain(3) >>,
      << WM(1, pr[1], MaskOf(k1, Len(pr[1])), TNone, M0), WM(2, pr[2], MaskOf(k2, Len(pr[2])), TNone, MTime) >>,
      << R(1, "route", TNone, mem, MFull) >>) :
     pr \in RoutePairs, mem \in RouteMembers,
     k1 \in IF Thorough THEN MaskKinds ELSE {"first"}, k2 \in IF Thorough THEN {"none", "first", "rest"} ELSE {"none"}}
F4m ==
  {DS("F4", << Plain(1), Plain(2), Plain(3) >>,
      << WM(1, refs, MaskOf(k1, 4), t1, MVer), WM(2, <<1, 3, 2, 1>>, MaskOf(k2, 4), TNone, M0) >>,
      << R(1, "multipolygon", ex, mem, MTime) >>) :
     refs \in {<<1, 2, 3, 1>>, <<1, 3, 2, 1>>}, k1 \in {"first", "rest"}, k2 \in {"none", "first"},
     t1 \in {TNone, << <<"building", "yes">> >>}, ex \in IF Thorough THEN {TNone, << <<"name", "r">> >>} ELSE {TNone},
     mem \in {<< M("way", 1, "outer") >>, << M("way", 1, "outer"), M("way", 2, "inner") >>,
              << M("way", 1, "outer"), M("way", 2, "outer") >>, << M("way", 2, "inner"), M("way", 1, "inner") >>}}

\* F9 - every key of the documented uninteresting list, as the only tag, wherever interest decides: a way-member
\* node, a route member way, a multipolygon inner way, a multipolygon outer way; and next to an interesting tag
F9 ==
  UNION {{ DS("F9", << N(1, TRUE, << <<k, "x">> >>, M0), Plain(2), N(3, TRUE, << <<k, "x">>, <<"name", "n">> >>, M0) >>,
              << W(1, <<1, 2, 3>>, FALSE, << <<k, "y">> >>, MVer) >>, << >>),
           DS("F9", << N(1, TRUE, << <<k, "x">> >>, M0), Plain(2) >>,
              << W(1, <<1, 2>>, FALSE, << <<k, "y">> >>, M0), W(2, <<2, 1>>, FALSE, << <<k, "y">>, <<"highway", "path">> >>, M0) >>,
              << R(1, "route", << <<k, "z">> >>, << M("way", 1, ""), M("way", 2, "") >>, M0) >>),
           DS("F9", << Plain(1), Plain(2), N(3, TRUE, << <<k, "x">> >>, MVer) >>,
              << W(1, <<1, 2, 3, 1>>, FALSE, << <<k, "y">> >>, M0), W(2, <<1, 3, 2, 1>>, FALSE, << <<k, "y">> >>, M0) >>,
              << R(1, "multipolygon", << <<"name", "r">> >>, << M("way", 1, "outer"), M("way", 2, "inner") >>, M0) >>) }
         : k \in Unint}

Families == F9 \cup F3m \cup F4m \cup F1 \cup F2 \cup F3 \cup F4a \cup F4b \cup F5 \cup F6 \cup F7 \cup F8

\* the full product space, sampled
MemberAll == [t : {"node"}, ref : {1, 2, 3, 9}, role : {"", "stop"}] \cup
             [t : {"way"}, ref : {1, 2, 7}, role : {"outer", "inner", ""}] \cup
             [t : {"relation"}, ref : {1, 2}, role : {""}]
\* TLC draws random elements of a (flat) set of records without enumerating it, as long as its size
\* stays well below 2^31; so nodes, ways and each relation are drawn separately and zipped through
\* multiplicative permutations of the index (SetToSeq sorts, which would otherwise correlate the parts).
NodeSpace == [nabs : 0 .. 5,            \* 1..3: that node is absent, otherwise all three present
              n1loc : BOOLEAN, n1tags : NodeTagMenu, n1meta : MetaMenu,
              n2loc : BOOLEAN, n2tags : NodeTagMenu, n2meta : MetaMenu,
              n3loc : BOOLEAN, n3tags : NodeTagMenu, n3meta : MetaMenu]
WaySpace  == [wabs : 0 .. 3,            \* 1..2: that way is absent, otherwise both present
              w1refs : RefMenu, w1tags : WayTagMenu, w1meta : MetaMenu, w1ann : MaskKinds,
              w2refs : RefMenu, w2tags : WayTagMenu, w2meta : MetaMenu, w2ann : MaskKinds]
RelSpace  == [hn : 0 .. 2,              \* 0: the relation is absent
              kind : RelKinds, extra : RelExtraMenu, meta : MetaMenu,
              len : 0 .. 3, m1 : MemberAll, m2 : MemberAll, m3 : MemberAll]
MkNodes(x) == (IF x.nabs # 1 THEN << N(1, x.n1loc, x.n1tags, x.n1meta) >> ELSE << >>) \o
              (IF x.nabs # 2 THEN << N(2, x.n2loc, x.n2tags, x.n2meta) >> ELSE << >>) \o
              (IF x.nabs # 3 THEN << N(3, x.n3loc, x.n3tags, x.n3meta) >> ELSE << >>)
MkWays(x)  == (IF x.wabs # 1 THEN << WM(1, x.w1refs, MaskOf(x.w1ann, Len(x.w1refs)), x.w1tags, x.w1meta) >> ELSE << >>) \o
              (IF x.wabs # 2 THEN << WM(2, x.w2refs, MaskOf(x.w2ann, Len(x.w2refs)), x.w2tags, x.w2meta) >> ELSE << >>)
MkRel(i, x) == IF x.hn > 0 THEN << R(i, x.kind, x.extra, SubSeq(<<x.m1, x.m2, x.m3>>, 1, x.len), x.meta) >> ELSE << >>
Sample ==
  IF SampleN = 0 THEN {}
  ELSE LET ns == SetToSeq(RandomSubset(SampleN, NodeSpace))
           ws == SetToSeq(RandomSubset(SampleN, WaySpace))
           r1 == SetToSeq(RandomSubset(SampleN, RelSpace))
           r2 == SetToSeq(RandomSubset(SampleN, RelSpace))
           at(seq, i, a) == seq[((i * a) % Len(seq)) + 1]
           all3 == SetToSeq({Ids(n, w, r) : n \in IdClasses, w \in IdClasses, r \in IdClasses})
           \* every third sample case gets one of the 343 id class triples, the others small ids
       IN {d \in {[DS("S", MkNodes(ns[i]), MkWays(at(ws, i, 7919)), MkRel(1, at(r1, i, 1543)) \o MkRel(2, at(r2, i, 3571)))
                      EXCEPT !.ids = IF i % 3 = 0 THEN at(all3, i, 101) ELSE SmallIds] :
                     i \in 1 .. SampleN} : InSpace(d)}

DataSets == Families \cup Sample
=============================================================================
