CONSTANTS
  Tier = "quick"
  SampleN = 700
INIT GInit
NEXT GNext
CHECK_DEADLOCK FALSE
