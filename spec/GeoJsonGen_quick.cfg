CONSTANTS
  Tier = "quick"
  SampleN = 400
INIT GInit
NEXT GNext
CHECK_DEADLOCK FALSE
