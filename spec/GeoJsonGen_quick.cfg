CONSTANTS
  Tier = "quick"
  SampleN = 500
INIT GInit
NEXT GNext
CHECK_DEADLOCK FALSE
