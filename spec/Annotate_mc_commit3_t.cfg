CONSTANTS
  NK = 2
  MaxV <- V21
  MaxP = 3
  MaxT = 3
  MaxDt = 1
  CsSet = {1}
  ParentCsFree = TRUE
  RefLists <- RefsPair
  SameTimeParents = TRUE
  RefsMustExist = TRUE
  OptSet <- OptsCommit
  PinnedSort = FALSE
INIT Init
NEXT Next
INVARIANTS TypeOK JudgesHold SortedInv Deterministic PartialInv
CHECK_DEADLOCK FALSE
