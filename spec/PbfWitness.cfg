CONSTANT Configs <- WitnessConfigs
INIT WitInit
NEXT WitNext
INVARIANT Emit
CONSTRAINT Going
CHECK_DEADLOCK FALSE
VIEW WView
