----------------------------- MODULE XmlScanMC -----------------------------
(* Model-checking instance of XmlScan: a handful of token sequences that    *)
(* contain every token kind in every relevant neighbourhood; every call     *)
(* history of at most MaxCalls calls, with Close between calls and the      *)
(* caller's cancellation at every point of every Scan loop.                 *)
EXTENDS XmlScan
O(i) == Tok("obj", "i" \o ToString(i))
S == Tok("skip", "nil")
B == Tok("bad", "nil")
BO(i) == Tok("badobj", "i" \o ToString(i))
MCTokenSeqs ==
  { << >>, <<S, S>>, <<S, O(1), S>>, <<S, O(1), S, S, O(2), S, O(3), S, S>>, <<S, O(1), B, O(2), S>>,
    <<S, O(1), BO(2), O(3), S>>, <<S, S, B>>, <<O(1), O(2)>> }
=============================================================================
