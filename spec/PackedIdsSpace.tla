---------------------------- MODULE PackedIdsSpace ----------------------------
(* C10 - the input spaces TLC enumerates, and the expected identifiers.       *)
(*   value cases : kind x reference limbs x version on every bit-field        *)
(*                 boundary (incl. reference bit 39 and version 65535)        *)
(*   pair cases  : all ordered pairs of a pool of boundary identifiers        *)
(*   text cases  : every token string up to a length over a core alphabet,    *)
(*                 plus kind-part x ref-part x version-part templates         *)
(* A value case is [kind, r = <<r2, r1, r0>>, v]; kinds without versions have *)
(* v = 0, bounds has r = <<0,0,0>> (their constructors take nothing else).    *)
EXTENDS PackedIdsText, SequencesExt

B16 == {0, 1, 32767, 32768, 65535}
B8  == {0, 1, 127, 128, 255}
X16 == B16 \cup {2, 255, 256, 21845, 43690, 65534}
X8  == B8 \cup {2, 85, 170, 254}

Vc(k, r2, r1, r0, v) == [t |-> "val", kind |-> k, r |-> <<r2, r1, r0>>, v |-> v]

ValCasesOver(S8, S16) ==
  {Vc(k, r2, r1, r0, v) : k \in ElementKinds, r2 \in S8, r1 \in S16, r0 \in S16, v \in S16}
  \cup {Vc(k, r2, r1, r0, 0) : k \in NoVersionKinds, r2 \in S8, r1 \in S16, r0 \in S16}
  \cup {Vc("bounds", 0, 0, 0, 0)}
ValCases(full) == IF full THEN ValCasesOver(X8, X16) \cup ValCasesOver(B8, B16) ELSE ValCasesOver(B8, B16)

PoolRefs(full) ==
  {<<0, 0, 0>>, <<0, 0, 1>>, <<0, 0, 65535>>, <<0, 1, 0>>, <<0, 65535, 65535>>, <<1, 0, 0>>,
   <<127, 65535, 65535>>, <<128, 0, 0>>, <<255, 65535, 65535>>}
  \cup (IF full THEN {<<0, 0, 32768>>, <<0, 32767, 65535>>, <<0, 32768, 0>>, <<0, 65535, 0>>, <<255, 0, 0>>, <<254, 65535, 65535>>} ELSE {})
PoolVers(full) == {0, 1, 65535} \cup (IF full THEN {32767, 32768} ELSE {})
PairPool(full) ==
  {Vc(k, r[1], r[2], r[3], v) : k \in ElementKinds, r \in PoolRefs(full), v \in PoolVers(full)}
  \cup {Vc(k, r[1], r[2], r[3], 0) : k \in NoVersionKinds, r \in PoolRefs(full)}
  \cup {Vc("bounds", 0, 0, 0, 0)}
Trip(c) == [kind |-> c.kind, r |-> c.r, v |-> c.v]
PairCases(full) == {[t |-> "pair", a |-> Trip(x), b |-> Trip(y)] : x \in PairPool(full), y \in PairPool(full)}

(* ------------------------- expected identifiers -------------------------- *)
IsElemKind(k) == k \in ElementKinds
ObjL(c) ==
  IF c.kind = "bounds" THEN PackL(KindCode["bounds"], 0, 0, 0, 0)
  ELSE PackL(KindCode[c.kind], c.r[1], c.r[2], c.r[3], IF IsElemKind(c.kind) THEN c.v ELSE 0)
ElemL(c) == ObjL(c)                      \* defined for element kinds
FeatL(c) == FeatureL(ObjL(c))
Ref4(c)  == IF c.kind = "bounds" THEN <<0, 0, 0, 0>> ELSE <<0, c.r[1], c.r[2], c.r[3]>>
VerOf(c) == IF IsElemKind(c.kind) THEN c.v ELSE 0

\* the order the property states: node < way < relation, then reference, then version.
\* (The type-field order of the remaining kinds is a fact of the layout - PackedIds!Codes - but is not
\* part of the listed statement, so pairs of different kinds outside node/way/relation are only required
\* to be distinct.)
KindRank == [node |-> 1, way |-> 2, relation |-> 3]
RefLess(r, s) == r[1] < s[1] \/ (r[1] = s[1] /\ (r[2] < s[2] \/ (r[2] = s[2] /\ r[3] < s[3])))
Comparable(a, b) == a.kind = b.kind \/ (IsElemKind(a.kind) /\ IsElemKind(b.kind))
KindLess(a, b) == a.kind # b.kind /\ IsElemKind(a.kind) /\ IsElemKind(b.kind) /\ KindRank[a.kind] < KindRank[b.kind]
LexLessCase(a, b) ==
  \/ KindLess(a, b)
  \/ a.kind = b.kind /\ (RefLess(a.r, b.r) \/ (a.r = b.r /\ VerOf(a) < VerOf(b)))
FeatLessCase(a, b) == KindLess(a, b) \/ (a.kind = b.kind /\ RefLess(a.r, b.r))
SameId(a, b) == a.kind = b.kind /\ a.r = b.r /\ VerOf(a) = VerOf(b)

(* ----------------------------- big sort cases ---------------------------- *)
(* Large id lists with structured byte patterns.  An identifier is written as *)
(* 8 digits in significance order <<kind, r4, r3, r2, r1, r0, vh, vl>> (kind  *)
(* digit = index into kinds = <<node, way, relation>>, reference and version  *)
(* as big-endian bytes), so the (kind, ref, version) order is the             *)
(* lexicographic order of digit vectors.  A case is                           *)
(*     dom   : per position an increasing sequence of digits - the interior   *)
(*             of the list is the full product of dom                         *)
(*     first : a vector below every interior vector,  last : one above        *)
(* expanded by the harness to 2 + |product| identifiers in the order `order`  *)
(* (asc = expansion order, desc = reversed, shuffle = seeded shuffle).  The   *)
(* sorted result is first, the product in lexicographic order, last - which   *)
(* the Judge computes position by position (BigAt), no sorting needed.        *)
(* Family A: a pivot position p (constant prefix above it; first / last have  *)
(* pivot digits below / above all interior pivot digits), a set V of varying  *)
(* positions below the pivot (one position: all 256 byte values; two: 16      *)
(* values each), and a set E of positions below the pivot in which first and  *)
(* last AGREE although the interior may vary there.  Family B: all three      *)
(* kinds in the interior, first = a node, last = a relation, two varying      *)
(* positions of which the lower is equal in first and last.                   *)
Pos == 1 .. 8
KindSeq  == [i \in 1 .. 3 |-> CHOOSE k \in ElementKinds : KindRank[k] = i]
Byte256  == [i \in 1 .. 256 |-> i - 1]
Byte16   == [i \in 1 .. 16 |-> (i - 1) * 17]            \* 0x00, 0x11, ... 0xFF
Byte14   == [i \in 1 .. 14 |-> i * 17]                  \* 0x11 ... 0xEE (leaves room below and above)

BigCase(dom, first, last, order, seed) ==
  [t |-> "bigsort", kinds |-> KindSeq, dom |-> dom, first |-> first, last |-> last, order |-> order, seed |-> seed]

OrderOf(k) == IF k % 5 = 0 THEN "asc" ELSE IF k % 5 = 1 THEN "desc" ELSE "shuffle"

BigA(p, V, E, mids, hiRef) ==
  LET S      == IF Cardinality(V) = 1 THEN Byte256 ELSE Byte16
      pre(j) == IF j = 1 THEN 2 ELSE IF j = 2 THEN hiRef ELSE 0
      hi     == IF p = 1 THEN 3 ELSE 254
      T(j)   == IF j \in V THEN 17 ELSE 0
      T2(j)  == IF j \in E THEN T(j) ELSE IF j \in V THEN 238 ELSE 1
      dom    == [j \in Pos |-> IF j < p THEN <<pre(j)>> ELSE IF j = p THEN mids ELSE IF j \in V THEN S ELSE <<0>>]
      first  == [j \in Pos |-> IF j < p THEN pre(j) ELSE IF j = p THEN 1 ELSE T(j)]
      last   == [j \in Pos |-> IF j < p THEN pre(j) ELSE IF j = p THEN hi ELSE T2(j)]
      k      == p + 3 * Cardinality(V) + 7 * Cardinality(E) + Len(mids) + hiRef
  IN BigCase(dom, first, last, OrderOf(k), 1000 * p + 10 * Cardinality(E) + Len(mids))

Subsets12(S) == {V \in SUBSET S : Cardinality(V) \in {1, 2}}
Lower(p) == (p + 1) .. 8
MinOf(S) == CHOOSE x \in S : \A y \in S : x <= y
EChoices(p, V, full) ==
  {V, {}} \cup (IF Cardinality(V) = 2 THEN {{MinOf(V)}} ELSE {}) \cup (IF full THEN {Lower(p)} ELSE {})
MidsOf(p, wide) == IF p = 1 THEN <<2>> ELSE IF wide THEN <<2, 3, 128, 129>> ELSE <<2, 128>>

BigACases(full) ==
  UNION {UNION {{BigA(p, V, E, MidsOf(p, FALSE), 0) : E \in EChoices(p, V, full)}
                  : V \in {W \in Subsets12(Lower(p)) : full \/ Cardinality(W) = 1 \/ p \in {1, 3, 6}}}
           : p \in 1 .. 7}
  \cup (IF full
        THEN UNION {UNION {{BigA(p, V, E, MidsOf(p, TRUE), IF p > 2 THEN 128 ELSE 0) : E \in EChoices(p, V, full)}
                              : V \in Subsets12(Lower(p))} : p \in 1 .. 7}
        ELSE {})

BigB(q, j, agree) ==      \* q < j: varying positions; first / last agree in position j iff agree
  LET dom   == [x \in Pos |-> IF x = 1 THEN <<1, 2, 3>> ELSE IF x = q THEN Byte14 ELSE IF x = j THEN <<1, 2, 3, 38, 129, 200, 255>> ELSE <<0>>]
      first == [x \in Pos |-> IF x = 1 THEN 1 ELSE IF x = q THEN 1 ELSE IF x = j THEN 3 ELSE 0]
      last  == [x \in Pos |-> IF x = 1 THEN 3 ELSE IF x = q THEN 250 ELSE IF x = j THEN (IF agree THEN 3 ELSE 4) ELSE 0]
  IN BigCase(dom, first, last, OrderOf(q + j), 100 * q + j)
BigBCases(full) ==
  {BigB(qj[1], qj[2], ag) :
      qj \in {x \in (IF full THEN 2 .. 7 ELSE {3, 6}) \X (IF full THEN 3 .. 8 ELSE {7, 8}) : x[1] < x[2]}, ag \in BOOLEAN}

BigSortCases(full) == BigACases(full) \cup BigBCases(full)

\* well-formedness of a big sort case: digits in range, dom increasing, first below and last above the product
LexLessV(a, b) == \E j \in Pos : a[j] < b[j] /\ \A x \in 1 .. j - 1 : a[x] = b[x]
BigOK(c) ==
  /\ \A j \in Pos : /\ Len(c.dom[j]) >= 1
                    /\ \A i \in 1 .. Len(c.dom[j]) - 1 : c.dom[j][i] < c.dom[j][i + 1]
                    /\ \A i \in 1 .. Len(c.dom[j]) : c.dom[j][i] \in (IF j = 1 THEN 1 .. 3 ELSE 0 .. 255)
                    /\ c.first[j] \in (IF j = 1 THEN 1 .. 3 ELSE 0 .. 255) /\ c.last[j] \in (IF j = 1 THEN 1 .. 3 ELSE 0 .. 255)
  /\ LexLessV(c.first, [j \in Pos |-> c.dom[j][1]])
  /\ LexLessV([j \in Pos |-> c.dom[j][Len(c.dom[j])]], c.last)

\* the sorted expansion, position by position
BigProd(c)   == LET RECURSIVE P(_) P(j) == IF j > 8 THEN 1 ELSE Len(c.dom[j]) * P(j + 1) IN P(1)
BigWeights(c) == LET RECURSIVE P(_) P(j) == IF j > 8 THEN 1 ELSE Len(c.dom[j]) * P(j + 1) IN [j \in Pos |-> P(j + 1)]
BigDigit(c, W, n, i, j) ==
  IF i = 1 THEN c.first[j] ELSE IF i = n THEN c.last[j]
  ELSE c.dom[j][(((i - 2) \div W[j]) % Len(c.dom[j])) + 1]

(* ------------------------------ text cases ------------------------------- *)
CoreStrings(withSpace) ==
  {"node", "changeset", "zzz", "/", ":", "-", "+", "7", "0"} \cup (IF withSpace THEN {" "} ELSE {})
SeqsUpTo(S, n) == UNION {TupleOf(S, k) : k \in 0 .. n}

KindSegs == {<<k>> : k \in KindNames} \cup
            {<< >>, <<"Node">>, <<"nodes">>, <<"nod", "e">>, <<"zzz">>, <<" ", "node">>, <<"node", " ">>, <<"element">>, <<"7">>}
RefSegs  == {<<"0">>, <<"7">>, <<"12">>, <<"1", "2">>, <<"07">>, <<"00">>, <<"0", "7">>, <<"+", "7">>, <<"-", "7">>, <<"-", "0">>,
             << >>, <<"-">>, <<"zzz">>, <<"7", "e">>, <<"7", ".", "0">>, <<" ", "7">>, <<"7", " ">>, <<"+", "-", "7">>,
             <<"1", "_", "0">>, <<"2147483647">>, <<"4294967296">>, <<"549755813888">>, <<"1099511627775">>,
             <<"1099511627776">>, <<"9223372036854775807">>, <<"9223372036854775808">>, <<"99999999999999999999">>,
             <<"65535", "65535">>}
VerSegs  == {<< >>, <<":">>, <<":", "-">>, <<":", "0">>, <<":", "1">>, <<":", "3">>, <<":", "65535">>, <<":", "65536">>,
             <<":", "65537">>, <<":", "-", "3">>, <<":", "+", "3">>, <<":", "07">>, <<":", "1", "2">>, <<":", "zzz">>,
             <<":", "3", ":", "1">>, <<":", "3", "/", "1">>, <<":", " ", "3">>, <<":", "-", "-">>, <<":", "3", ".", "0">>,
             <<":", "1099511627776">>, <<":", "99999999999999999999">>, <<":", "-", ":">>,
             \* a further field after a complete version part ("more than one ':'")
             <<":", "3", ":", "-">>, <<":", "-", ":", "-">>, <<":", "-", ":", "3">>, <<":", "3", ":">>, <<":", ":", "-">>,
             <<":", ":", "3">>, <<":", "65535", ":", "-">>}
Templates == {k \o <<"/">> \o r \o v : k \in KindSegs, r \in RefSegs, v \in VerSegs}

\* quick: 9 core tokens, up to 4; thorough: up to 5, and up to 4 with the blank as a tenth token
TextCases(full) ==
  {[t |-> "text", toks |-> s] :
      s \in SeqsUpTo(CoreStrings(FALSE), IF full THEN 5 ELSE 4) \cup (IF full THEN SeqsUpTo(CoreStrings(TRUE), 4) ELSE {}) \cup Templates}

\* every string used in a text case is a token of PackedIdsText
ASSUME \A seg \in KindSegs \cup RefSegs \cup VerSegs : \A i \in 1 .. Len(seg) : \E t \in Tokens : t.s = seg[i]
ASSUME \A s \in CoreStrings(TRUE) : \E t \in Tokens : t.s = s

ToksOf(strs) == [i \in 1 .. Len(strs) |-> TokOf(strs[i])]
=============================================================================
