---------------------------- MODULE PackedIdsSpace ----------------------------
(* C10 - the input spaces TLC enumerates, and the expected identifiers.       *)
(*   value cases : kind x reference limbs x version on every bit-field        *)
(*                 boundary (incl. reference bit 39 and version 65535)        *)
(*   pair cases  : all ordered pairs of a pool of boundary identifiers        *)
(*   text cases  : every token string up to a length over a core alphabet,    *)
(*                 plus kind-part x ref-part x version-part templates         *)
(* A value case is [kind, r = <<r2, r1, r0>>, v]; kinds without versions have *)
(* v = 0, bounds has r = <<0,0,0>> (their constructors take nothing else).    *)
EXTENDS PackedIdsText, SequencesExt

B16 == {0, 1, 32767, 32768, 65535}
B8  == {0, 1, 127, 128, 255}
X16 == B16 \cup {2, 255, 256, 21845, 43690, 65534}
X8  == B8 \cup {2, 85, 170, 254}

Vc(k, r2, r1, r0, v) == [t |-> "val", kind |-> k, r |-> <<r2, r1, r0>>, v |-> v]

ValCasesOver(S8, S16) ==
  {Vc(k, r2, r1, r0, v) : k \in ElementKinds, r2 \in S8, r1 \in S16, r0 \in S16, v \in S16}
  \cup {Vc(k, r2, r1, r0, 0) : k \in NoVersionKinds, r2 \in S8, r1 \in S16, r0 \in S16}
  \cup {Vc("bounds", 0, 0, 0, 0)}
ValCases(full) == IF full THEN ValCasesOver(X8, X16) \cup ValCasesOver(B8, B16) ELSE ValCasesOver(B8, B16)

PoolRefs(full) ==
  {<<0, 0, 0>>, <<0, 0, 1>>, <<0, 0, 65535>>, <<0, 1, 0>>, <<0, 65535, 65535>>, <<1, 0, 0>>,
   <<127, 65535, 65535>>, <<128, 0, 0>>, <<255, 65535, 65535>>}
  \cup (IF full THEN {<<0, 0, 32768>>, <<0, 32767, 65535>>, <<0, 32768, 0>>, <<0, 65535, 0>>, <<255, 0, 0>>, <<254, 65535, 65535>>} ELSE {})
PoolVers(full) == {0, 1, 65535} \cup (IF full THEN {32767, 32768} ELSE {})
PairPool(full) ==
  {Vc(k, r[1], r[2], r[3], v) : k \in ElementKinds, r \in PoolRefs(full), v \in PoolVers(full)}
  \cup {Vc(k, r[1], r[2], r[3], 0) : k \in NoVersionKinds, r \in PoolRefs(full)}
  \cup {Vc("bounds", 0, 0, 0, 0)}
Trip(c) == [kind |-> c.kind, r |-> c.r, v |-> c.v]
PairCases(full) == {[t |-> "pair", a |-> Trip(x), b |-> Trip(y)] : x \in PairPool(full), y \in PairPool(full)}

(* ------------------------- expected identifiers -------------------------- *)
IsElemKind(k) == k \in ElementKinds
ObjL(c) ==
  IF c.kind = "bounds" THEN PackL(KindCode["bounds"], 0, 0, 0, 0)
  ELSE PackL(KindCode[c.kind], c.r[1], c.r[2], c.r[3], IF IsElemKind(c.kind) THEN c.v ELSE 0)
ElemL(c) == ObjL(c)                      \* defined for element kinds
FeatL(c) == FeatureL(ObjL(c))
Ref4(c)  == IF c.kind = "bounds" THEN <<0, 0, 0, 0>> ELSE <<0, c.r[1], c.r[2], c.r[3]>>
VerOf(c) == IF IsElemKind(c.kind) THEN c.v ELSE 0

\* the order the property states: node < way < relation, then reference, then version.
\* (The type-field order of the remaining kinds is a fact of the layout - PackedIds!Codes - but is not
\* part of the listed statement, so pairs of different kinds outside node/way/relation are only required
\* to be distinct.)
KindRank == [node |-> 1, way |-> 2, relation |-> 3]
RefLess(r, s) == r[1] < s[1] \/ (r[1] = s[1] /\ (r[2] < s[2] \/ (r[2] = s[2] /\ r[3] < s[3])))
Comparable(a, b) == a.kind = b.kind \/ (IsElemKind(a.kind) /\ IsElemKind(b.kind))
KindLess(a, b) == a.kind # b.kind /\ IsElemKind(a.kind) /\ IsElemKind(b.kind) /\ KindRank[a.kind] < KindRank[b.kind]
LexLessCase(a, b) ==
  \/ KindLess(a, b)
  \/ a.kind = b.kind /\ (RefLess(a.r, b.r) \/ (a.r = b.r /\ VerOf(a) < VerOf(b)))
FeatLessCase(a, b) == KindLess(a, b) \/ (a.kind = b.kind /\ RefLess(a.r, b.r))
SameId(a, b) == a.kind = b.kind /\ a.r = b.r /\ VerOf(a) = VerOf(b)

(* ------------------------------ text cases ------------------------------- *)
CoreStrings(withSpace) ==
  {"node", "changeset", "zzz", "/", ":", "-", "+", "7", "0"} \cup (IF withSpace THEN {" "} ELSE {})
SeqsUpTo(S, n) == UNION {TupleOf(S, k) : k \in 0 .. n}

KindSegs == {<<k>> : k \in KindNames} \cup
            {<< >>, <<"Node">>, <<"nodes">>, <<"nod", "e">>, <<"zzz">>, <<" ", "node">>, <<"node", " ">>, <<"element">>, <<"7">>}
RefSegs  == {<<"0">>, <<"7">>, <<"12">>, <<"1", "2">>, <<"07">>, <<"00">>, <<"0", "7">>, <<"+", "7">>, <<"-", "7">>, <<"-", "0">>,
             << >>, <<"-">>, <<"zzz">>, <<"7", "e">>, <<"7", ".", "0">>, <<" ", "7">>, <<"7", " ">>, <<"+", "-", "7">>,
             <<"1", "_", "0">>, <<"2147483647">>, <<"4294967296">>, <<"549755813888">>, <<"1099511627775">>,
             <<"1099511627776">>, <<"9223372036854775807">>, <<"9223372036854775808">>, <<"99999999999999999999">>,
             <<"65535", "65535">>}
VerSegs  == {<< >>, <<":">>, <<":", "-">>, <<":", "0">>, <<":", "1">>, <<":", "3">>, <<":", "65535">>, <<":", "65536">>,
             <<":", "65537">>, <<":", "-", "3">>, <<":", "+", "3">>, <<":", "07">>, <<":", "1", "2">>, <<":", "zzz">>,
             <<":", "3", ":", "1">>, <<":", "3", "/", "1">>, <<":", " ", "3">>, <<":", "-", "-">>, <<":", "3", ".", "0">>,
             <<":", "1099511627776">>, <<":", "99999999999999999999">>, <<":", "-", ":">>}
Templates == {k \o <<"/">> \o r \o v : k \in KindSegs, r \in RefSegs, v \in VerSegs}

\* quick: 9 core tokens, up to 4; thorough: up to 5, and up to 4 with the blank as a tenth token
TextCases(full) ==
  {[t |-> "text", toks |-> s] :
      s \in SeqsUpTo(CoreStrings(FALSE), IF full THEN 5 ELSE 4) \cup (IF full THEN SeqsUpTo(CoreStrings(TRUE), 4) ELSE {}) \cup Templates}

\* every string used in a text case is a token of PackedIdsText
ASSUME \A seg \in KindSegs \cup RefSegs \cup VerSegs : \A i \in 1 .. Len(seg) : \E t \in Tokens : t.s = seg[i]
ASSUME \A s \in CoreStrings(TRUE) : \E t \in Tokens : t.s = s

ToksOf(strs) == [i \in 1 .. Len(strs) |-> TokOf(strs[i])]
=============================================================================
