---------------------------- MODULE GeoJsonGen ----------------------------
(* C17 - writes the abstract cases (data set + the 16 option sets) as ndjson. *)
EXTENDS GeoJsonSpace, IOUtils, Json
\* families F1..F7 say nothing about ids: their cases are dealt out over four assignments of id classes that fit
FitTriples == << SmallIds, Ids("i31", "i32", "top40"), Ids("top40", "i31", "i32"), Ids("i32", "top40", "small") >>
CaseOf(all, i) == LET d == all[i] IN
  [fam |-> d.fam, nodes |-> d.nodes, ways |-> d.ways, rels |-> d.rels,
   ids |-> IF d.fam \in {"F8", "S"} THEN d.ids ELSE FitTriples[(i % 4) + 1], opts |-> OptSeqs]
ASSUME LET all == SetToSeq(DataSets) IN ndJsonSerialize(IOEnv.OUT, [i \in DOMAIN all |-> CaseOf(all, i)])
VARIABLE g
GInit == g = 0
GNext == UNCHANGED g
=============================================================================
