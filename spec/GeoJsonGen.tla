---------------------------- MODULE GeoJsonGen ----------------------------
(* C17 - writes the abstract cases (data set + the 16 option sets) as ndjson. *)
EXTENDS GeoJsonSpace, IOUtils, Json
CaseOf(d) == [fam |-> d.fam, nodes |-> d.nodes, ways |-> d.ways, rels |-> d.rels, opts |-> OptSeqs]
ASSUME ndJsonSerialize(IOEnv.OUT, SetToSeq({CaseOf(d) : d \in DataSets}))
VARIABLE g
GInit == g = 0
GNext == UNCHANGED g
=============================================================================
