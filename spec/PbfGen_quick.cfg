CONSTANT Tier = "quick"
CONSTANT Configs <- GenConfigs
INIT GenInit
NEXT GenNext
INVARIANT Emit
CHECK_DEADLOCK FALSE
