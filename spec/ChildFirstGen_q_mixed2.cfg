\* 2 ids: two versions with different members, non-relation members, failing datasource; request lists of length <= 1
CONSTANTS
  N = 2
  MaxMem = 1
  MaxReq = 1
  Family = "mixed"
  FlagFamily = "plain"
  WithBad = TRUE
  CanonicalReqs = FALSE
  VersionSets <- MCVersions
  ReqLists <- MCReqs
  BadSets <- MCBad
  FlagSets <- MCFlags
  Slice = 0
  Slices = 1
  Sample = 0
INIT Init
NEXT GNext
CHECK_DEADLOCK FALSE
