-------------------------- MODULE PbfFormatCache --------------------------
(***************************************************************************)
(* The MECHANISM of osmpbf's dataDecoder (decode_data.go), one worker:     *)
(* the decoder object lives as long as the worker and keeps                *)
(*   pb     the cached PrimitiveBlock parameters and string table          *)
(*   cache  the cached protoscan iterators, one per column                 *)
(* from block to block.  Each iterator is (data, base): the packed column  *)
(* it was last pointed at and how much of it has been consumed; Nil is the *)
(* nil pointer.  The actions transcribe scanPrimitiveBlock /               *)
(* scanDenseNodes + extractDenseNodes / scanWays / scanRelations +         *)
(* extractMembers at the level of "which iterator is overwritten, which is *)
(* cleared, which is read": the columns are delta ENCODED here from the    *)
(* abstract file (Wire operators) and decoded again by accumulation, the   *)
(* way the code does it.                                                   *)
(*                                                                         *)
(* Invariant NoInherit: whatever has been extracted so far equals          *)
(* PbfFormat!DecodeBlocks of the blocks so far, each block decoded ALONE   *)
(* (no value inherited from an earlier block / group / element), and no    *)
(* spurious error.  TLC checks it for every file of the C01 input space    *)
(* handed to one worker.  The constant Bug removes one clearing / reset    *)
(* ("none" = the mechanism as designed); with any other value TLC must     *)
(* find a violation -- which shows that the invariant and the input space  *)
(* are not vacuous for that part of the mechanism.                         *)
(***************************************************************************)
EXTENDS PbfFormatSpace
CONSTANTS Bug,      \* "none" | a DenseInfo column name | "info" | "keyvals" | "params" | "memid" | "waytags" | "members"
          Full, Seed, Fams

VARIABLES blocks, bi, gi, ei, pb, cache, out, err
vars == <<blocks, bi, gi, ei, pb, cache, out, err>>

Nil      == [data |-> << >>, base |-> -1]
IsNil(c) == c.base = -1
Fresh(d) == [data |-> d, base |-> 0]
Avail(c, i) == c.base + i <= Len(c.data)
Rd(c, i)    == c.data[c.base + i]                       \* i-th value read since the iterator was pointed at the column
RECURSIVE Acc(_, _)
Acc(c, i)   == IF i = 0 THEN 0 ELSE Acc(c, i - 1) + Rd(c, i)       \* delta accumulation
Used(c, n)  == IF IsNil(c) THEN c ELSE [c EXCEPT !.base = c.base + n]

Delta(s) == [i \in 1 .. Len(s) |-> s[i] - (IF i = 1 THEN 0 ELSE s[i - 1])]
Map(s, f(_)) == [i \in 1 .. Len(s) |-> f(s[i])]

DenseColNames == {"ids", "lats", "lons", "version", "timestamp", "changeset", "uid", "user_sid", "visible", "keyvals"}
OtherIters    == {"keys", "vals", "nodes", "wlats", "wlons", "roles", "memids", "types"}
EmptyCache    == [c \in DenseColNames \cup OtherIters |-> Nil]

(* ------------------------------- wire level ----------------------------- *)
\* the packed column of a dense group as the writer emits it
WireCol(g, c) ==
  CASE c = "ids"       -> Delta(Map(g.nodes, LAMBDA n : n.id))
    [] c = "lats"      -> Delta(Map(g.nodes, LAMBDA n : n.lat))
    [] c = "lons"      -> Delta(Map(g.nodes, LAMBDA n : n.lon))
    [] c = "version"   -> Map(g.nodes, LAMBDA n : n.ver)
    [] c = "timestamp" -> Delta(Map(g.nodes, LAMBDA n : n.ts))
    [] c = "changeset" -> Delta(Map(g.nodes, LAMBDA n : n.cs))
    [] c = "uid"       -> Delta(Map(g.nodes, LAMBDA n : n.uid))
    [] c = "user_sid"  -> Delta(Map(g.nodes, LAMBDA n : n.usid))
    [] c = "visible"   -> Map(g.nodes, LAMBDA n : IF n.vis THEN 1 ELSE 0)
    [] c = "keyvals"   -> Concat(Map(g.nodes, LAMBDA n : Concat(Map(n.tags, LAMBDA t : <<t[1], t[2]>>)) \o <<0>>))
InfoCols == {"version", "timestamp", "changeset", "uid", "user_sid", "visible"}
Written(g, c) == CASE c \in {"ids", "lats", "lons"} -> TRUE
                   [] c = "keyvals" -> g.kv
                   [] OTHER -> g.info /\ InSeq(c, g.cols)

(* --------------------------- scanPrimitiveBlock ------------------------- *)
\* first pass: reset the cached parameters, then take what the block carries
BeginBlock ==
  /\ ~err /\ bi < Len(blocks)
  /\ (IF bi = 0 THEN TRUE ELSE gi > Len(blocks[bi].groups))
  /\ LET b == blocks[bi + 1]
         Keep(f, new) == IF Bug = "params" /\ new = << >> /\ bi > 0 THEN pb[f] ELSE new IN
     pb' = [gran |-> Keep("gran", b.gran), latoff |-> Keep("latoff", b.latoff), lonoff |-> Keep("lonoff", b.lonoff),
            dgran |-> Keep("dgran", b.dgran), st |-> b.st]
  /\ bi' = bi + 1 /\ gi' = 1 /\ ei' = 1
  /\ UNCHANGED <<blocks, cache, out, err>>

CurGroup == blocks[bi].groups[gi]
InGroup  == ~err /\ bi >= 1 /\ gi <= Len(blocks[bi].groups)

PLat(raw) == Opt(pb.latoff, 0) + Opt(pb.gran, DefaultGranularity) * raw
PLon(raw) == Opt(pb.lonoff, 0) + Opt(pb.gran, DefaultGranularity) * raw
PStamp(raw) == << Opt(pb.dgran, DefaultDateGranularity) * raw >>
StOK(i)  == i >= 0 /\ i < Len(pb.st)
PStr(i)  == pb.st[i + 1]

(* ------------------- scanDenseNodes + extractDenseNodes ----------------- *)
\* an iterator is overwritten iff its column is found; the clearing of the others is what NoInherit depends on
AfterScanDense(g) ==
  [c \in DOMAIN cache |->
     IF c \notin DenseColNames THEN cache[c]
     ELSE IF Written(g, c) THEN Fresh(WireCol(g, c))
     ELSE IF c = "keyvals" THEN (IF Bug = "keyvals" THEN cache[c] ELSE Nil)
     ELSE IF g.info THEN (IF Bug = c THEN cache[c] ELSE Nil)        \* if !foundVersions { dec.versions = nil } ...
     ELSE (IF Bug = "info" THEN cache[c] ELSE Nil)]                 \* if !foundInfo { all six = nil }

\* keys_vals: (k v)* 0 per node, read from where the iterator stands
RECURSIVE ReadTags(_, _, _)
ReadTags(data, pos, acc) ==
  IF pos + 1 > Len(data) THEN [pos |-> pos, tags |-> acc, err |-> TRUE]
  ELSE IF data[pos + 1] = 0 THEN [pos |-> pos + 1, tags |-> acc, err |-> FALSE]
  ELSE IF pos + 2 > Len(data) THEN [pos |-> pos, tags |-> acc, err |-> TRUE]
  ELSE ReadTags(data, pos + 2, Append(acc, <<data[pos + 1], data[pos + 2]>>))

KVWalk(c, n) ==      \* [i |-> result of reading the tags of node i]
  LET F[i \in 0 .. n] == IF i = 0 THEN [pos |-> c.base, tags |-> << >>, err |-> FALSE]
                         ELSE IF F[i - 1].err THEN F[i - 1] ELSE ReadTags(c.data, F[i - 1].pos, << >>)
  IN F

ExtractDense(c, n) ==
  LET kv == IF IsNil(c["keyvals"]) THEN << >> ELSE KVWalk(c["keyvals"], n)
      ColErr(i) == \E col \in DenseColNames \ {"keyvals"} : ~IsNil(c[col]) /\ ~Avail(c[col], i)
      StrErr(i) == \/ (~IsNil(c["user_sid"]) /\ ~StOK(Acc(c["user_sid"], i)))
                   \/ (~IsNil(c["keyvals"]) /\ ~kv[i].err /\ \E j \in 1 .. Len(kv[i].tags) : ~StOK(kv[i].tags[j][1]) \/ ~StOK(kv[i].tags[j][2]))
      Bad(i) == ColErr(i) \/ (~IsNil(c["keyvals"]) /\ kv[i].err) \/ StrErr(i)
      Node(i) ==
        [t |-> "node", id |-> Acc(c["ids"], i), lat |-> PLat(Acc(c["lats"], i)), lon |-> PLon(Acc(c["lons"], i)),
         ver  |-> IF IsNil(c["version"])   THEN 0 ELSE Rd(c["version"], i),
         ts   |-> IF IsNil(c["timestamp"]) THEN << >> ELSE PStamp(Acc(c["timestamp"], i)),
         cs   |-> IF IsNil(c["changeset"]) THEN 0 ELSE Acc(c["changeset"], i),
         uid  |-> IF IsNil(c["uid"])       THEN 0 ELSE Acc(c["uid"], i),
         user |-> IF IsNil(c["user_sid"])  THEN EmptyStr ELSE PStr(Acc(c["user_sid"], i)),
         vis  |-> IF IsNil(c["visible"])   THEN TRUE ELSE Rd(c["visible"], i) = 1,
         tags |-> IF IsNil(c["keyvals"])   THEN << >> ELSE Map(kv[i].tags, LAMBDA t : <<PStr(t[1]), PStr(t[2])>>)]
      firstBad == IF \E i \in 1 .. n : Bad(i) THEN CHOOSE i \in 1 .. n : Bad(i) /\ \A j \in 1 .. i - 1 : ~Bad(j) ELSE n + 1
  IN [nodes |-> [i \in 1 .. firstBad - 1 |-> Node(i)], err |-> firstBad <= n,
      kvpos |-> IF IsNil(c["keyvals"]) THEN 0 ELSE kv[IF firstBad <= n THEN firstBad - 1 ELSE n].pos]

ScanDense ==
  /\ InGroup /\ CurGroup.kind = "dense"
  /\ \E c1 \in {AfterScanDense(CurGroup)} : \E x \in {ExtractDense(c1, Len(CurGroup.nodes))} :      \* (bound once: TLC evaluates them eagerly)
     /\ out' = out \o x.nodes
     /\ err' = x.err
     /\ cache' = [c \in DOMAIN c1 |-> IF c \notin DenseColNames THEN c1[c]
                                     ELSE IF c = "keyvals" THEN (IF IsNil(c1[c]) THEN c1[c] ELSE [c1[c] EXCEPT !.base = x.kvpos])
                                     ELSE Used(c1[c], Len(x.nodes))]
  /\ gi' = gi + 1 /\ ei' = 1
  /\ UNCHANGED <<blocks, bi, pb>>

(* --------------------------------- scanWays ----------------------------- *)
\* which packed fields a way / relation message carries (the writer omits an empty packed field unless `ee`)
HasKV(e)   == Len(e.tags) > 0 \/ e.ee
HasRefs(w) == Len(w.refs) > 0 \/ w.ee
HasLats(w) == w.loc \in {"both", "lat"} /\ (Len(w.lats) > 0 \/ w.ee)
HasLons(w) == w.loc \in {"both", "lon"} /\ (Len(w.lons) > 0 \/ w.ee)
HasMems(r) == Len(r.mems) > 0 \/ r.ee

\* Info: each field found overwrites the field of the (fresh: no filter here) element, Visible starts TRUE
MetaFrom(e) ==
  [ver  |-> IF MetaHas(e, "version")   THEN e.ver ELSE 0,
   ts   |-> IF MetaHas(e, "timestamp") THEN PStamp(e.ts) ELSE << >>,
   cs   |-> IF MetaHas(e, "changeset") THEN e.cs ELSE 0,
   uid  |-> IF MetaHas(e, "uid")       THEN e.uid ELSE 0,
   user |-> IF MetaHas(e, "user_sid")  THEN PStr(e.usid) ELSE EmptyStr,
   vis  |-> IF MetaHas(e, "visible")   THEN e.vis ELSE TRUE]

\* scanTags(st, keys, vals) over the cached keys / vals iterators
TagsFromIters(k, v) == [j \in 1 .. Len(k.data) - k.base |-> <<PStr(Rd(k, j)), PStr(Rd(v, j))>>]

ScanWay ==
  /\ InGroup /\ CurGroup.kind = "ways" /\ ei <= Len(CurGroup.ways)
  /\ LET w == CurGroup.ways[ei]
         keys  == IF HasKV(w) THEN Fresh(Map(w.tags, LAMBDA t : t[1])) ELSE cache["keys"]      \* not cleared: stale
         vals  == IF HasKV(w) THEN Fresh(Map(w.tags, LAMBDA t : t[2])) ELSE cache["vals"]
         nodes == IF HasRefs(w) THEN Fresh(Delta(w.refs)) ELSE cache["nodes"]
         wlats == IF HasLats(w) THEN Fresh(Delta(w.lats)) ELSE cache["wlats"]
         wlons == IF HasLons(w) THEN Fresh(Delta(w.lons)) ELSE cache["wlons"]
         \* way.Nodes is allocated by the first of refs / lat / lon that is found
         nn    == IF HasRefs(w) THEN Len(w.refs) ELSE IF HasLats(w) THEN Len(w.lats) ELSE IF HasLons(w) THEN Len(w.lons) ELSE 0
         \* the found flags are local to the call; "waytags" makes the decision depend on the cached pointer instead
         useTags == IF Bug = "waytags" THEN ~IsNil(keys) /\ ~IsNil(vals) ELSE HasKV(w)
         m == MetaFrom(w)
         elem == [t |-> "way", id |-> w.id, ver |-> m.ver, ts |-> m.ts, cs |-> m.cs, uid |-> m.uid, user |-> m.user, vis |-> m.vis,
                  tags  |-> IF useTags THEN TagsFromIters([keys EXCEPT !.base = 0], [vals EXCEPT !.base = 0]) ELSE << >>,
                  nodes |-> [j \in 1 .. nn |-> << IF HasRefs(w) THEN Acc(nodes, j) ELSE 0,
                                                  IF HasLats(w) THEN PLat(Acc(wlats, j)) ELSE 0,
                                                  IF HasLons(w) THEN PLon(Acc(wlons, j)) ELSE 0 >>]] IN
     /\ out' = Append(out, elem)
     /\ cache' = [cache EXCEPT !["keys"] = Used(keys, Len(keys.data)), !["vals"] = Used(vals, Len(vals.data)),
                               !["nodes"] = Used(nodes, Len(nodes.data)), !["wlats"] = Used(wlats, Len(wlats.data)),
                               !["wlons"] = Used(wlons, Len(wlons.data))]
  /\ ei' = ei + 1
  /\ UNCHANGED <<blocks, bi, gi, pb, err>>

(* --------------------- scanRelations + extractMembers ------------------- *)
ScanRelation ==
  /\ InGroup /\ CurGroup.kind = "rels" /\ ei <= Len(CurGroup.rels)
  /\ LET r == CurGroup.rels[ei]
         keys   == IF HasKV(r) THEN Fresh(Map(r.tags, LAMBDA t : t[1])) ELSE cache["keys"]
         vals   == IF HasKV(r) THEN Fresh(Map(r.tags, LAMBDA t : t[2])) ELSE cache["vals"]
         roles  == IF HasMems(r) THEN Fresh(Map(r.mems, LAMBDA x : x[3])) ELSE cache["roles"]
         memids == IF HasMems(r) THEN Fresh(Delta(Map(r.mems, LAMBDA x : x[2]))) ELSE cache["memids"]
         types  == IF HasMems(r) THEN Fresh(Map(r.mems, LAMBDA x : x[1])) ELSE cache["types"]
         useMems == IF Bug = "members" THEN ~IsNil(roles) /\ ~IsNil(memids) /\ ~IsNil(types) ELSE HasMems(r)
         \* memID is a local of extractMembers: the accumulation starts at 0 for every relation
         start == IF Bug = "memid" THEN cache["memids"].acc0 ELSE 0
         nm    == IF useMems THEN Len(types.data) ELSE 0
         m == MetaFrom(r)
         rolesR == [roles EXCEPT !.base = 0]  memR == [memids EXCEPT !.base = 0]  typesR == [types EXCEPT !.base = 0]
         elem == [t |-> "relation", id |-> r.id, ver |-> m.ver, ts |-> m.ts, cs |-> m.cs, uid |-> m.uid, user |-> m.user, vis |-> m.vis,
                  tags |-> IF HasKV(r) THEN TagsFromIters([keys EXCEPT !.base = 0], [vals EXCEPT !.base = 0]) ELSE << >>,
                  members |-> [j \in 1 .. nm |-> << MemberTypeName[Rd(typesR, j) + 1], start + Acc(memR, j), PStr(Rd(rolesR, j)) >>]] IN
     /\ out' = Append(out, elem)
     /\ cache' = [cache EXCEPT !["keys"] = Used(keys, Len(keys.data)), !["vals"] = Used(vals, Len(vals.data)),
                               !["roles"] = Used(roles, Len(roles.data)), !["types"] = Used(types, Len(types.data)),
                               !["memids"] = [data |-> memids.data, base |-> Len(memids.data),
                                              acc0 |-> IF nm > 0 THEN start + Acc(memR, nm) ELSE start]]
  /\ ei' = ei + 1
  /\ UNCHANGED <<blocks, bi, gi, pb, err>>

NextGroup ==
  /\ InGroup
  /\ (CASE CurGroup.kind = "empty" -> TRUE
        [] CurGroup.kind = "ways"  -> ei > Len(CurGroup.ways)
        [] CurGroup.kind = "rels"  -> ei > Len(CurGroup.rels)
        [] OTHER -> FALSE)
  /\ gi' = gi + 1 /\ ei' = 1
  /\ UNCHANGED <<blocks, bi, pb, cache, out, err>>

(* ------------------------------- the machine ---------------------------- *)
\* the blocks of every file of the chosen families (the same files the real scanner is given with one decoder)
Init == /\ \E f \in Fams : \E x \in FamShapes(f, Full, Seed) : blocks = FamBuild(f, Full, Seed, x).file.blocks
        /\ bi = 0 /\ gi = 1 /\ ei = 1
        /\ pb = [gran |-> << >>, latoff |-> << >>, lonoff |-> << >>, dgran |-> << >>, st |-> <<EmptyStr>>]
        /\ cache = [EmptyCache EXCEPT !["memids"] = [data |-> << >>, base |-> -1, acc0 |-> 0]]
        /\ out = << >> /\ err = FALSE
Next == BeginBlock \/ ScanDense \/ ScanWay \/ ScanRelation \/ NextGroup
Spec == Init /\ [][Next]_vars

(* ------------------------------- the invariant -------------------------- *)
\* the elements of the current block that have been passed so far, decoded from that block alone
DoneInCurrent ==
  IF bi = 0 THEN << >>
  ELSE LET b == blocks[bi]
           whole == Concat([g \in 1 .. (IF gi <= Len(b.groups) THEN gi - 1 ELSE Len(b.groups)) |-> DecodeGroup(b, b.groups[g])])
           part  == IF gi <= Len(b.groups) /\ b.groups[gi].kind \in {"ways", "rels"}
                    THEN SubSeq(DecodeGroup(b, b.groups[gi]), 1, ei - 1) ELSE << >>
       IN whole \o part
NoInherit == /\ ~err
             /\ out = DecodeBlocks(SubSeq(blocks, 1, IF bi = 0 THEN 0 ELSE bi - 1)) \o DoneInCurrent
=============================================================================
