--------------------------- MODULE PolygonRules ---------------------------
(* C18 - area classification of ways and relations.                        *)
(*                                                                         *)
(* The published Overpass-turbo / osmtogeojson "polygon features" table,   *)
(* transcribed once into TLA+ (it is independent of the Go source from     *)
(* here on), the classification rule stated over it, the input space TLC   *)
(* enumerates, and the Judge evaluated on values recorded from the real    *)
(* Way.Polygon / Relation.Polygon.                                         *)
EXTENDS Integers, Sequences, FiniteSets, TLC, Json, SequencesExt

Rule(kind, vals) == [kind |-> kind, vals |-> vals]

\* key |-> rule; "all" = any value other than "no"; whitelist / blacklist by value
Table ==
  [ building         |-> Rule("all", {}),
    highway          |-> Rule("whitelist", {"services", "rest_area", "escape", "elevator"}),
    natural          |-> Rule("blacklist", {"coastline", "cliff", "ridge", "arete", "tree_row"}),
    landuse          |-> Rule("all", {}),
    waterway         |-> Rule("whitelist", {"riverbank", "dock", "boatyard", "dam"}),
    amenity          |-> Rule("all", {}),
    leisure          |-> Rule("all", {}),
    barrier          |-> Rule("whitelist", {"city_wall", "ditch", "hedge", "retaining_wall", "wall", "spikes"}),
    railway          |-> Rule("whitelist", {"station", "turntable", "roundhouse", "platform"}),
    boundary         |-> Rule("all", {}),
    man_made         |-> Rule("blacklist", {"cutline", "embankment", "pipeline"}),
    power            |-> Rule("whitelist", {"plant", "substation", "generator", "transformer"}),
    place            |-> Rule("all", {}),
    shop             |-> Rule("all", {}),
    aeroway          |-> Rule("blacklist", {"taxiway"}),
    tourism          |-> Rule("all", {}),
    historic         |-> Rule("all", {}),
    public_transport |-> Rule("all", {}),
    office           |-> Rule("all", {}),
    military         |-> Rule("all", {}),
    ruins            |-> Rule("all", {}),
    craft            |-> Rule("all", {}),
    golf             |-> Rule("all", {}),
    indoor           |-> Rule("all", {}) ]
   @@ ("building:part" :> Rule("all", {}))
   @@ ("area:highway"  :> Rule("all", {}))

RuleKeys == DOMAIN Table

\* a tag list is a sequence of <<key, value>>; keys are unique in the enumerated space
ValueOf(tags, k) == IF \E i \in 1 .. Len(tags) : tags[i][1] = k
                    THEN LET i == CHOOSE i \in 1 .. Len(tags) : tags[i][1] = k IN tags[i][2]
                    ELSE ""           \* an empty value and an absent tag are the same thing (Tags.Find)

Passes(k, v) ==
  /\ v # "" /\ v # "no"
  /\ CASE Table[k].kind = "all"       -> TRUE
       [] Table[k].kind = "whitelist" -> v \in Table[k].vals
       [] Table[k].kind = "blacklist" -> v \notin Table[k].vals

TagsSayArea(tags) ==
  LET a == ValueOf(tags, "area") IN
  IF a = "no" THEN FALSE
  ELSE IF a # "" THEN TRUE
  ELSE \E k \in RuleKeys : Passes(k, ValueOf(tags, k))

\* way: closed, more than three refs, and the tags say so
WayIsArea(nrefs, closed, tags) == nrefs > 3 /\ closed /\ TagsSayArea(tags)
RelationIsArea(tags) == ValueOf(tags, "type") \in {"multipolygon", "boundary"}

Expected(c) == IF c.kind = "way" THEN WayIsArea(c.nrefs, c.closed, c.tags) ELSE RelationIsArea(c.tags)

(* ------------------------------ input space ---------------------------- *)
AllListed == UNION {Table[k].vals : k \in RuleKeys}
\* values tried for key k: its own listed values, a value listed under another key,
\* an unlisted value, "yes", "no", the empty string
ValuesFor(k) == Table[k].vals \cup {"no", "", "yes", "zzz_unlisted", "wall", "Wall", "dock ", "coastlin"}
AreaTags == {<< >>, << <<"area", "no">> >>, << <<"area", "yes">> >>, << <<"area", "">> >>, << <<"area", "dunno">> >>}
Noise == <<"name", "x">>

KV == {<<k, v>> : k \in RuleKeys, v \in {"no", "yes", "zzz_unlisted"}} \cup
      {<<k, v>> : k \in {"highway", "natural", "waterway", "barrier", "railway", "man_made", "power", "aeroway"},
                  v \in AllListed}

KVall == UNION {{<<k, v>> : v \in ValuesFor(k)} : k \in RuleKeys}
Singles ==
  {[kind |-> "way", nrefs |-> n, closed |-> cl, tags |-> a \o <<kv>>] :
      n \in {3, 4, 5}, cl \in BOOLEAN, a \in AreaTags, kv \in KVall}
  \cup {[kind |-> "way", nrefs |-> 4, closed |-> TRUE, tags |-> <<kv>> \o a] : a \in AreaTags, kv \in KVall}
  \cup {[kind |-> "way", nrefs |-> n, closed |-> cl, tags |-> a] : n \in {0, 1, 2, 3, 4, 5}, cl \in BOOLEAN, a \in AreaTags \cup {<<Noise>>}}

\* every listed value under every key with a value list (cross-key confusion, binary-search neighbours)
Cross == {[kind |-> "way", nrefs |-> 5, closed |-> TRUE, tags |-> <<Noise, kv>>] : kv \in KV}

\* two rule tags in both orders, with and without an unrelated tag in front
Pairs(full) ==
  LET P == IF full THEN KV ELSE {kv \in KV : kv[2] \in {"no", "yes", "wall", "taxiway", "station", "cliff"}} IN
  {[kind |-> "way", nrefs |-> 4, closed |-> TRUE, tags |-> <<ab[1], ab[2]>>] : ab \in {x \in P \X P : x[1][1] # x[2][1]}}

Relations ==
  {[kind |-> "relation", nrefs |-> 0, closed |-> FALSE, tags |-> t] :
      t \in {<< >>, <<Noise>>} \cup
            {<< <<"type", v>> >> : v \in {"multipolygon", "boundary", "route", "", "Multipolygon", "multipolygon2", "no", "site"}} \cup
            {<< Noise, <<"type", v>> >> : v \in {"multipolygon", "boundary", "route"}} \cup
            {<< <<"building", "yes">>, <<"type", v>> >> : v \in {"multipolygon", "route"}} \cup
            {<< <<"area", "yes">> >>, << <<"building", "yes">> >>}}

CONSTANT FullPairs
Cases == Singles \cup Cross \cup Pairs(FullPairs) \cup Relations

VARIABLE case
Init == case \in Cases
Next == UNCHANGED case

\* design-level sanity of the rule itself (checked on every enumerated case):
\* the verdict only depends on the tag *set*, not on tag order
OrderFree == \A p \in {<<1, 2>>, <<2, 1>>} :
   Len(case.tags) = 2 => Expected(case) = Expected([case EXCEPT !.tags = <<case.tags[p[1]], case.tags[p[2]]>>])
=============================================================================
