--------------------------- MODULE PolygonRules ---------------------------
(* C18 - area classification of ways and relations.                        *)
(*                                                                         *)
(* The published Overpass-turbo / osmtogeojson "polygon features" table,   *)
(* transcribed once into TLA+ (it is independent of the Go source from     *)
(* here on), the classification rule stated over it, the input space TLC   *)
(* enumerates, and the Judge evaluated on values recorded from the real    *)
(* Way.Polygon / Relation.Polygon.                                         *)
EXTENDS Integers, Sequences, FiniteSets, TLC, Json, SequencesExt

Rule(kind, vals) == [kind |-> kind, vals |-> vals]

\* key |-> rule; "all" = any value other than "no"; whitelist / blacklist by value
Table ==
  [ building         |-> Rule("all", {}),
    highway          |-> Rule("whitelist", {"services", "rest_area", "escape", "elevator"}),
    natural          |-> Rule("blacklist", {"coastline", "cliff", "ridge", "arete", "tree_row"}),
    landuse          |-> Rule("all", {}),
    waterway         |-> Rule("whitelist", {"riverbank", "dock", "boatyard", "dam"}),
    amenity          |-> Rule("all", {}),
    leisure          |-> Rule("all", {}),
    barrier          |-> Rule("whitelist", {"city_wall", "ditch", "hedge", "retaining_wall", "wall", "spikes"}),
    railway          |-> Rule("whitelist", {"station", "turntable", "roundhouse", "platform"}),
    boundary         |-> Rule("all", {}),
    man_made         |-> Rule("blacklist", {"cutline", "embankment", "pipeline"}),
    power            |-> Rule("whitelist", {"plant", "substation", "generator", "transformer"}),
    place            |-> Rule("all", {}),
    shop             |-> Rule("all", {}),
    aeroway          |-> Rule("blacklist", {"taxiway"}),
    tourism          |-> Rule("all", {}),
    historic         |-> Rule("all", {}),
    public_transport |-> Rule("all", {}),
    office           |-> Rule("all", {}),
    military         |-> Rule("all", {}),
    ruins            |-> Rule("all", {}),
    craft            |-> Rule("all", {}),
    golf             |-> Rule("all", {}),
    indoor           |-> Rule("all", {}) ]
   @@ ("building:part" :> Rule("all", {}))
   @@ ("area:highway"  :> Rule("all", {}))

RuleKeys == DOMAIN Table

\* a tag list is a sequence of <<key, value>>; keys are unique in the enumerated space
ValueOf(tags, k) == IF \E i \in 1 .. Len(tags) : tags[i][1] = k
                    THEN LET i == CHOOSE i \in 1 .. Len(tags) : tags[i][1] = k IN tags[i][2]
                    ELSE ""           \* an empty value and an absent tag are the same thing (Tags.Find)

Passes(k, v) ==
  /\ v # "" /\ v # "no"
  /\ CASE Table[k].kind = "all"       -> TRUE
       [] Table[k].kind = "whitelist" -> v \in Table[k].vals
       [] Table[k].kind = "blacklist" -> v \notin Table[k].vals

TagsSayArea(tags) ==
  LET a == ValueOf(tags, "area") IN
  IF a = "no" THEN FALSE
  ELSE IF a # "" THEN TRUE
  ELSE \E k \in RuleKeys : Passes(k, ValueOf(tags, k))

\* way: closed, more than three refs, and the tags say so
WayIsArea(nrefs, closed, tags) == nrefs > 3 /\ closed /\ TagsSayArea(tags)
RelationIsArea(tags) == ValueOf(tags, "type") \in {"multipolygon", "boundary"}

\* c.ann says how the way's node refs are annotated (versions / locations on some of them): "closed" is about node ids only,
\* so the annotation must not matter -- Expected ignores it on purpose
Expected(c) == IF c.kind = "way" THEN WayIsArea(c.nrefs, c.closed, c.tags) ELSE RelationIsArea(c.tags)

(* ------------------------------ input space ---------------------------- *)
AllListed == UNION {Table[k].vals : k \in RuleKeys}
\* values tried for key k: its own listed values, a value listed under another key,
\* an unlisted value, "yes", "no", the empty string
ValuesFor(k) == Table[k].vals \cup {"no", "", "yes", "zzz_unlisted", "wall", "Wall", "dock ", "coastlin"}
AreaTags == {<< >>, << <<"area", "no">> >>, << <<"area", "yes">> >>, << <<"area", "">> >>, << <<"area", "dunno">> >>}
Noise == <<"name", "x">>

KV == {<<k, v>> : k \in RuleKeys, v \in {"no", "yes", "zzz_unlisted"}} \cup
      {<<k, v>> : k \in {"highway", "natural", "waterway", "barrier", "railway", "man_made", "power", "aeroway"},
                  v \in AllListed}

KVall == UNION {{<<k, v>> : v \in ValuesFor(k)} : k \in RuleKeys}
Singles ==
  {[kind |-> "way", nrefs |-> n, closed |-> cl, tags |-> a \o <<kv>>] :
      n \in {3, 4, 5}, cl \in BOOLEAN, a \in AreaTags, kv \in KVall}
  \cup {[kind |-> "way", nrefs |-> 4, closed |-> TRUE, tags |-> <<kv>> \o a] : a \in AreaTags, kv \in KVall}
  \cup {[kind |-> "way", nrefs |-> n, closed |-> cl, tags |-> a] : n \in {0, 1, 2, 3, 4, 5}, cl \in BOOLEAN, a \in AreaTags \cup {<<Noise>>}}

\* every listed value under every key with a value list (cross-key confusion, binary-search neighbours)
Cross == {[kind |-> "way", nrefs |-> 5, closed |-> TRUE, tags |-> <<Noise, kv>>] : kv \in KV}

\* two rule tags in both orders, with and without an unrelated tag in front
Pairs(full) ==
  LET P == IF full THEN KV ELSE {kv \in KV : kv[2] \in {"no", "yes", "wall", "taxiway", "station", "cliff"}} IN
  {[kind |-> "way", nrefs |-> 4, closed |-> TRUE, tags |-> <<ab[1], ab[2]>>] : ab \in {x \in P \X P : x[1][1] # x[2][1]}}

Relations ==
  {[kind |-> "relation", nrefs |-> 0, closed |-> FALSE, tags |-> t] :
      t \in {<< >>, <<Noise>>} \cup
            {<< <<"type", v>> >> : v \in {"multipolygon", "boundary", "route", "", "Multipolygon", "multipolygon2", "no", "site"}} \cup
            {<< Noise, <<"type", v>> >> : v \in {"multipolygon", "boundary", "route"}} \cup
            {<< <<"building", "yes">>, <<"type", v>> >> : v \in {"multipolygon", "route"}} \cup
            {<< <<"area", "yes">> >>, << <<"building", "yes">> >>}}

\* many unrelated tags around the deciding ones ("depends only on the tag set, not on ... unrelated tags"), in front and behind
NoiseTags(n) == [i \in 1 .. n |-> <<"note:" \o ToString(i), "x" \o ToString(i)>>]
Deciding == { << <<"building", "yes">>, <<"area", "no">> >>, << <<"area", "no">>, <<"building", "yes">> >>,
              << <<"highway", "pedestrian">>, <<"area", "yes">> >>, << <<"highway", "services">> >>, << <<"natural", "coastline">> >>,
              << <<"natural", "water">> >>, << <<"waterway", "dock">> >>, << <<"aeroway", "taxiway">>, <<"military", "airfield">> >>,
              << <<"man_made", "pipeline">> >>, << <<"area", "">>, <<"shop", "no">> >>, << <<"indoor", "room">> >>, << >> }
Noisy == { [kind |-> "way", nrefs |-> 5, closed |-> TRUE, tags |-> (IF front THEN NoiseTags(n) \o d ELSE d \o NoiseTags(n))] :
             n \in {7, 8, 9, 10, 16, 33}, d \in Deciding, front \in BOOLEAN }
         \cup { [kind |-> "way", nrefs |-> 5, closed |-> TRUE, tags |-> SubSeq(NoiseTags(n), 1, n \div 2) \o d \o SubSeq(NoiseTags(n), n \div 2 + 1, n)] :
             n \in {9, 16}, d \in Deciding }
\* annotated node refs: every / only the last bare / first and last annotated differently / only some carrying a location
Anns == {"none", "all", "lastbare", "differ", "partial"}
Annotated == { [c EXCEPT !.ann = a] : a \in Anns \ {"none"},
               c \in { [kind |-> "way", nrefs |-> n, closed |-> cl, tags |-> t, ann |-> "none"] :
                          n \in {3, 4, 5}, cl \in BOOLEAN, t \in { << <<"building", "yes">> >>, << <<"highway", "services">> >>, << <<"area", "yes">> >>,
                                                                  << <<"natural", "cliff">> >>, << >> } } }

CONSTANT FullPairs
WithAnn(S) == { [kind |-> c.kind, nrefs |-> c.nrefs, closed |-> c.closed, tags |-> c.tags, ann |-> "none"] : c \in S }
\* multi-values: two listed values of the key joined by a separator, either order, and a listed value with a separator in front
\* of or behind it -- none of these is a listed value, whatever a lookup structure makes of the separator
Seps == {"|", ";", ",", " "}
ListKeys == {k \in RuleKeys : Table[k].vals # {}}
Joined == UNION { { [kind |-> "way", nrefs |-> 5, closed |-> TRUE, tags |-> << <<k, ab[1] \o sp \o ab[2]>> >>] :
                      ab \in {x \in Table[k].vals \X Table[k].vals : x[1] # x[2]}, sp \in (IF FullPairs THEN Seps ELSE {"|", ";"}) }
                  \cup { [kind |-> "way", nrefs |-> 5, closed |-> TRUE, tags |-> << <<k, v>> >>] :
                      v \in UNION {{sp \o a, a \o sp} : a \in Table[k].vals, sp \in Seps} } : k \in ListKeys }

Cases == WithAnn(Singles \cup Cross \cup Pairs(FullPairs) \cup Relations \cup Noisy \cup Joined) \cup Annotated

VARIABLE case
Init == case \in Cases
Next == UNCHANGED case

\* design-level sanity of the rule itself (checked on every enumerated case):
\* the verdict only depends on the tag *set*, not on tag order
OrderFree == \A p \in {<<1, 2>>, <<2, 1>>} :
   Len(case.tags) = 2 => Expected(case) = Expected([case EXCEPT !.tags = <<case.tags[p[1]], case.tags[p[2]]>>])
=============================================================================
