\* quick tier, design-level model checking, static half: Model = Expected and Model |= Judge from every static
\* case (HMax 4) and 1500 random draws of the product space
CONSTANTS
  HMax = 4
  SingleKinds = {"node", "way", "relation"}
  BothVis = FALSE
  PairVers = {2, 3}
  NRandom = 1500
  BuildMax = 0
  BuildIds = {1, 2, 3}
  WithFamilies = TRUE
  StaticInit = TRUE
INIT Init
NEXT Next
INVARIANTS ModelIsExpected ModelMeetsJudge PrefixInv ScanInv
CHECK_DEADLOCK FALSE
