\* quick tier: case generation and design-level model checking
CONSTANTS
  HMax = 4
  BothVis = FALSE
  PairVers = {2, 3}
  NRandom = 1500
  BuildMax = 2
  BuildIds = {1, 2, 3}
INIT Init
NEXT Next
INVARIANTS ModelIsExpected ModelMeetsJudge PrefixInv ScanInv
CHECK_DEADLOCK FALSE
