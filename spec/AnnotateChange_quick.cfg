\* quick tier, design-level model checking, static half: Model = Expected and Model |= Judge from the static cases (Singles of
\* kind node with HMax 4 - the Model treats the kinds alike -, Pairs with version 3, all small families) and 500 random draws;
\* the thorough tier checks all kinds, Pairs {2,3} and 3000 draws
CONSTANTS
  HMax = 4
  SingleKinds = {"node"}
  BothVis = FALSE
  PairVers = {3}
  NRandom = 500
  BuildMax = 0
  BuildIds = {1, 2, 3}
  WithFamilies = TRUE
  StaticInit = TRUE
INIT Init
NEXT Next
INVARIANTS ModelIsExpected ModelMeetsJudge PrefixInv ScanInv
CHECK_DEADLOCK FALSE
