---------------------------- MODULE OsmCoreTrace ----------------------------
(* X01, code -> spec.  The per-call records of the harness (IOEnv.REC, one     *)
(* JSON object per line; a "reset" line starts the next call sequence on fresh *)
(* containers) are replayed against the actions of OsmCore:                    *)
(*     line l is consumed iff   Do(the logged call)  leads to a Model state    *)
(*     whose projection equals the logged projection of the real containers.   *)
(* The query results logged with the line are kept in obs and compared with    *)
(* the Model's derived operators (invariants Q_..), and the Judge is evaluated *)
(* on them (invariant JudgeOnLog), in every state on the way.  The log is      *)
(* accepted when every line was consumed (POSTCONDITION on the high-water      *)
(* mark).                                                                      *)
EXTENDS OsmCore, IOUtils, Json
TraceLog == ndJsonDeserialize(IOEnv.REC)
VARIABLES l, obs
tvars == <<vars, l, obs>>
Ev == TraceLog[l]
IsEvent(e) == l <= Len(TraceLog) /\ Ev.e = e /\ l' = l + 1

TraceInit == Init /\ l = 1 /\ obs = [e |-> "none"]
TraceReset == /\ IsEvent("reset")
              /\ heap' = << >> /\ doc' = EmptyOSM /\ chg' = [create |-> NilOSM, modify |-> NilOSM, delete |-> NilOSM]
              /\ ds' = NilDs /\ tags' = << >> /\ refs' = << >> /\ last' = [op |-> "reset"] /\ n' = 0
              /\ Proj' = Ev.st
              /\ obs' = Ev
TraceStep  == /\ IsEvent("op")
              /\ Do(Ev.op)
              /\ Proj' = Ev.st
              /\ obs' = Ev
TraceNext == TraceReset \/ TraceStep
TraceSpec == TraceInit /\ [][TraceNext]_tvars

Seen == obs.e # "none"
SameFields(fs) == LET m == MQ IN \A f \in fs : obs.q[f] = m[f]
Q_Containers == Seen => SameFields({"objs", "elems", "fids", "eids", "oids", "e_eids", "e_fids", "k_ids", "k_fids", "k_eids", "cobjs"})
Q_Sorted     == Seen => SameFields({"s_elems", "s_eids", "s_fids", "cnt_e", "cnt_f"})
Q_Hist       == Seen => SameFields({"hist"})
Q_Tags       == Seen => SameFields({"find", "findtag", "has", "tmap", "interesting"})
Q_Refs       == Seen => SameFields({"m_fids", "m_eids", "wn_ids", "wn_fids", "wn_eids", "wn_bounds", "ls", "contains"})
Q_Pure       == obs.e = "reset" => obs.p = MPure
Q_All        == Seen => obs.q = MQ            \* nothing logged that the Model does not define, and vice versa
JudgeOnLog   == Seen => J_Queries(Proj, obs.q)

HighWater == TLCSet(1, IF TLCGet(1) < l THEN l ELSE TLCGet(1))
TraceAccepted == TLCGet(1) = Len(TraceLog) + 1 \/ (PrintT(<<"STUCK", TLCGet(1)>>) /\ FALSE)
ASSUME TLCSet(1, 0)
=============================================================================
