CONSTANT Shapes = {}
CONSTANT MaxPieces = 1
CONSTANT MaskMode = "basic"
CONSTANT Tasks = {}
CONSTANT Patterns = {"all"}
CONSTANT CheckModel = TRUE
INIT JInit
NEXT JNext
CHECK_DEADLOCK FALSE
