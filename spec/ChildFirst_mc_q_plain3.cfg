\* every graph on 3 ids with <= 2 relation members each, one requested id, undisturbed iteration
CONSTANTS
  N = 3
  MaxMem = 2
  MaxReq = 1
  Family = "flat"
  FlagFamily = "plain"
  WithBad = FALSE
  CanonicalReqs = TRUE
  VersionSets <- MCVersions
  ReqLists <- MCReqs
  BadSets <- MCBad
  FlagSets <- MCFlags
SPECIFICATION ReducedSpec
INVARIANTS TypeOK EmittedOnce OnlyWithHistory ChildrenFirst AllRequestedEmitted StopEndsIteration EmitsPrefixOfRunOut RanToEndEmitsRunOut CompletedAtEnd VisitedIsEmittedOrSending
CHECK_DEADLOCK FALSE
