----------------------------- MODULE UpdatesGen -----------------------------
(* Case generation for C15.  A plan is a sequence of entries                *)
(*   [k, n, L, T, un, smp]                                                  *)
(* smp = -1: as smp = 0 and in addition every own time of the element       *)
(*          (OwnChoices: Timestamp unset / before / at / between / after    *)
(*          the stamps, Committed nil / earlier / equal / later);           *)
(*          in all other entries the own time of each case is drawn by TLC. *)
(* smp = -2: as smp = 0 and in addition every location symbol (LocAll:       *)
(*          ordinary, the origin (0,0), only lat 0, only lon 0) on every    *)
(*          child and every update; in all other entries the location       *)
(*          symbols of each case are drawn by TLC (DrawLoc: 5/11 ordinary,  *)
(*          1/11 each origin / lat 0 / lon 0 / changeset 0 / version 0 /    *)
(*          both 0).                                                        *)
(* smp = 0: every stored list of exactly L updates over n children (child   *)
(*          un of a way not annotated, 0 = fully annotated) and times 1..T, *)
(*          every t1 <= t2 in 0..T (exhaustive);                            *)
(* smp > 0: smp lists drawn by TLC (RandomSubset, seeded with -seed) from   *)
(*          the lists of exactly L updates, each with one pair t1 <= t2     *)
(*          drawn by TLC.                                                   *)
(* Entry i is written to the file IOEnv.OUT.i; this process handles the     *)
(* entries with i % IOEnv.MOD = IOEnv.REM (several TLC processes share a    *)
(* plan).  One file per entry keeps every written sequence homogeneous      *)
(* (serialising a UNION of differently shaped cases is many times slower).  *)
EXTENDS Updates, IOUtils, Json, Randomization, SequencesExt

E(k, n, L, T, un, smp) == [k |-> k, n |-> n, L |-> L, T |-> T, un |-> un, smp |-> smp]

\* kind "group" (mputil.Group on a way listed by m members): smp = 0 every list of exactly L updates, every t,
\* every list of exactly m members that are the way (outer / inner, CW / CCW / not oriented); smp > 0 samples with
\* members drawn from all MemberChoices (also missing ways, node members, other roles)
\* q = number of queries made one after the other on the way: q = 1 a single Group call at every t; q >= 2 every
\* sequence of Group / LineStringAt queries at times going up, down or repeating
G(n, L, T, m, smp) == [k |-> "group", n |-> n, L |-> L, T |-> T, un |-> 0, smp |-> smp, m |-> m, q |-> 1]
Q(n, L, T, m, q, smp) == [k |-> "group", n |-> n, L |-> L, T |-> T, un |-> 0, smp |-> smp, m |-> m, q |-> q]
WayMembers == {mc \in MemberChoices : mc.tgt = "way" /\ mc.role # "via"}

\* long-list family entry (see LongCases below)
LG(k, n, L, T, smp, srt) == [k |-> k, n |-> n, L |-> L, T |-> T, un |-> 0, smp |-> smp, fam |-> "long", srt |-> srt]

\* all list lengths 0 .. L, one entry per length
Lens(k, n, L, T, un) == [l \in 1 .. L + 1 |-> E(k, n, l - 1, T, un, 0)]

OwnLens(k, n, L, T, un) == [l \in 1 .. L + 1 |-> E(k, n, l - 1, T, un, -1)]

QuickPlan ==
     << E("way", 1, 0, 2, 0, -2), E("way", 1, 1, 2, 0, -2), E("relation", 1, 1, 1, 0, -2) >>
  \o OwnLens("way", 1, 2, 2, 0) \o << E("relation", 1, 1, 2, 0, -1) >>
  \o Lens("way", 1, 3, 2, 0) \o Lens("way", 2, 3, 2, 0) \o Lens("way", 2, 2, 2, 1)
  \o Lens("relation", 1, 2, 2, 0) \o Lens("relation", 2, 2, 2, 0) \o Lens("relation", 3, 2, 2, 0)
  \o << E("way", 3, 4, 3, 0, 700), E("way", 4, 5, 3, 0, 700), E("way", 3, 5, 3, 3, 300),
        E("relation", 3, 4, 3, 0, 500), E("relation", 4, 5, 3, 0, 500) >>
  \o << G(2, 1, 2, 2, 0), Q(2, 1, 2, 1, 2, 0), Q(3, 3, 3, 2, 3, 500) >>
  \o << LG("way", 3, 13, 3, 120, FALSE), LG("way", 4, 21, 4, 80, FALSE), LG("relation", 3, 15, 3, 120, FALSE),
        LG("relation", 4, 32, 4, 50, FALSE), LG("way", 3, 13, 3, 80, TRUE), LG("relation", 4, 21, 4, 80, TRUE) >>

ThoroughPlan ==
     << E("way", 1, 0, 2, 0, -2), E("way", 1, 1, 3, 0, -2), E("way", 2, 1, 2, 0, -2), E("way", 1, 2, 2, 0, -2),
        E("relation", 1, 1, 2, 0, -2) >>
  \o OwnLens("way", 1, 2, 3, 0) \o << E("way", 2, 2, 2, 0, -1), E("relation", 1, 1, 3, 0, -1) >>
  \o Lens("way", 1, 4, 3, 0) \o Lens("way", 2, 4, 3, 0) \o Lens("way", 3, 3, 3, 0) \o << E("way", 3, 4, 2, 0, 0) >>
  \o Lens("way", 2, 3, 3, 1) \o Lens("way", 2, 3, 3, 2)
  \o Lens("relation", 1, 3, 3, 0) \o Lens("relation", 2, 3, 3, 0) \o Lens("relation", 3, 2, 3, 0)
  \o << E("relation", 3, 3, 2, 0, 0) >>
  \o << E("way", 3, 4, 3, 0, 10000), E("way", 4, 5, 4, 0, 10000), E("way", 4, 5, 3, 0, 5000), E("way", 4, 5, 3, 2, 3000),
        E("relation", 4, 5, 4, 0, 10000), E("relation", 3, 4, 3, 0, 5000) >>
  \o << G(2, 0, 2, 2, 0), G(2, 1, 2, 2, 0), G(2, 2, 2, 2, 0), G(2, 1, 3, 3, 0), Q(2, 1, 2, 1, 2, 0), Q(2, 2, 2, 1, 2, 0),
        Q(1, 1, 2, 1, 3, 0), Q(3, 3, 3, 3, 3, 4000), Q(4, 4, 3, 4, 4, 2000) >>
  \o << LG("way", 3, 13, 3, 1500, FALSE), LG("way", 4, 21, 4, 1000, FALSE), LG("relation", 3, 15, 3, 1500, FALSE),
        LG("relation", 4, 32, 4, 800, FALSE), LG("way", 3, 13, 3, 1000, TRUE), LG("way", 4, 32, 4, 500, TRUE),
        LG("relation", 4, 21, 4, 1000, TRUE), LG("relation", 3, 15, 3, 800, TRUE) >>

CONSTANT Plan

DrawOwn(T) == RandomElement(OwnChoices(T))
GroupEntryCases(e) ==
  IF e.smp = 0
  THEN GroupCasesExact(e.n, e.L, e.T, e.m, WayMembers, e.q,
                       IF e.q = 1 THEN {qc \in QueryChoices(e.T) : qc.op = "group"} ELSE QueryChoices(e.T), DrawOwn)
  ELSE {GroupCase(e.n, e.L, e.T, 0, f, [i \in 1 .. e.q |-> RandomElement(QueryChoices(e.T))],
                  [i \in 1 .. e.m |-> RandomElement(MemberChoices)], DrawOwn(e.T)) :
          f \in RandomSubset(e.smp, [1 .. e.L -> Choice("way", e.n, e.T)])}
\* (the argument is unused: TLC evaluates a definition without parameters once and would hand every point the same draw)
LocOfDraw(r) == IF r <= 5 THEN "n" ELSE <<"o", "la", "lo", "c0", "v0", "cv0">>[r - 5]
DrawLoc(j) == LocOfDraw(RandomElement(1 .. 11))
Reloc(c) ==
  LET chs == c.children  ups == c.updates IN
  [c EXCEPT !.children = [j \in DOMAIN chs |-> IF Annotated(chs[j]) THEN SetLoc(chs[j], DrawLoc(j)) ELSE chs[j]],
            !.updates = [j \in DOMAIN ups |-> SetLoc(ups[j], DrawLoc(j))]]
\* long-list family: smp stored lists of exactly L updates (13, 15, 21, 32: longer than any small-slice shortcut of a
\* sorting or partitioning routine), every position drawn by TLC from the in-range choices (idx < n, so that
\* Exact / Pending / Compose have something to say); srt = TRUE: the drawn list is then put into the order annotation
\* produces (by index, then time), which makes every child's updates time ordered (Compose applies)
LongChoice(k, n, T) == {c \in Choice(k, n, T) : c.idx < n}
ByIndexTime(a, b) == a.idx < b.idx \/ (a.idx = b.idx /\ a.time <= b.time)
LongList(e, i) ==
  LET f == [j \in 1 .. e.L |-> RandomElement(LongChoice(e.k, e.n, e.T))] IN
  IF e.srt THEN SortSeq(f, ByIndexTime) ELSE f
LongCases(e) ==
  {Case(e.k, ChildrenOf(e.k, e.n, 0), MkList(LongList(e, i)), RandomElement(Pairs(e.T)), e.T, DrawOwn(e.T)) : i \in 1 .. e.smp}

BaseEntryCases(e) ==
  IF "fam" \in DOMAIN e THEN LongCases(e)
  ELSE IF e.k = "group" THEN GroupEntryCases(e)
  ELSE IF e.smp = -1 THEN CasesExactOwn(e.k, e.n, e.L, e.T, e.un)
  ELSE IF e.smp = 0 THEN CasesExact(e.k, e.n, e.L, e.T, e.un, DrawOwn)
  ELSE {Case(e.k, ChildrenOf(e.k, e.n, e.un), MkList(f), RandomElement(Pairs(e.T)), e.T, DrawOwn(e.T)) :
          f \in RandomSubset(e.smp, [1 .. e.L -> Choice(e.k, e.n, e.T)])}

EntryCases(e) ==
  IF e.smp = -2 THEN CasesExactLoc(e.k, e.n, e.L, e.T, DrawOwn)
  ELSE {Reloc(c) : c \in BaseEntryCases(e)}

Mine == {i \in 1 .. Len(Plan) : i % atoi(IOEnv.MOD) = atoi(IOEnv.REM)}
ASSUME \A i \in Mine : ndJsonSerialize(IOEnv.OUT \o "." \o ToString(i), SetToSeq(EntryCases(Plan[i])))
ASSUME PrintT(<<"ENTRIES", Cardinality(Mine), Len(Plan)>>)
=============================================================================
