\* design level, thorough, ways: <= 2 fully annotated nodes, every stored list of <= 4 updates over
\* index 0..n and three distinct times 1..3, every t1 <= t2 in 0..3
CONSTANTS
  MaxN = 2
  MaxL = 4
  MaxT = 3
  Kinds = {"way"}
  UnannChoices = {0}
  LocKinds = {"n"}
  BreakAtLate = FALSE
SPECIFICATION Spec
INVARIANTS Exact1 Exact2 Pending1 Pending2 IndexErr1 IndexErr2 Compose GeomAt1 GeomAt2 FoldsAgree UpToSplit KFExact
CHECK_DEADLOCK FALSE
