\* the pinned variant of LineStringAt (leaves the loop at the first too-late update): everything about
\* ApplyUpdatesUpTo still holds and KFExact shows that GeomJ can only fail when an applicable update is
\* stored after a too-late one
CONSTANTS
  MaxN = 2
  MaxL = 3
  MaxT = 2
  Kinds = {"way"}
  UnannChoices = {0}
  LocKinds = {"n"}
  BreakAtLate = TRUE
SPECIFICATION Spec
INVARIANTS Exact1 Exact2 Pending1 Pending2 IndexErr1 IndexErr2 Compose FoldsAgree KFExact
CHECK_DEADLOCK FALSE
