CONSTANTS MaxLen = 4 AlphabetName = "wide"
INIT Init
NEXT Next
INVARIANT TextConforms
CHECK_DEADLOCK FALSE
