CONSTANT Configs <- CfgsHist
INIT Init
NEXT Next
INVARIANTS HistInv
CHECK_DEADLOCK FALSE
