-------------------------- MODULE MultipolygonJudge --------------------------
(* Judge for C16.  Every recorded line is                                                                *)
(*   [case |-> [g, members, masks, rtype, norder],                                                       *)
(*    got  |-> [runs  |-> << [src, m (index into masks), npoly, nfeat, polys, tainted, crash, err] >>,   *)
(*              annot |-> << Member.Orientation after annotate.Relations >>, annerr,                     *)
(*              pipe  |-> the run that converts the relation as annotated by annotate.Relations] ]       *)
(* Verdict clauses (the listed property):  RingsRecovered for every run, SameForBothCoordinateSources,   *)
(* SameWithOrWithoutOrientation, OrientationAnnotated.  Additionally the exact result predicted by the   *)
(* Model (RunModel) is compared with the recorded one: a mismatch alone is a DIVERGENCE, not a violation.*)
EXTENDS Multipolygon, IOUtils, Json

Lines == ndJsonDeserialize(IOEnv.REC)

Res(r) == [feature |-> r.npoly = 1 /\ ~r.crash, polys |-> r.polys]
RunIdx(ln) == 1 .. Len(ln.got.runs)

\* the case must be a cut of its ground truth (guards the Judge against a broken generator / renderer input)
CaseOK(c) == /\ \A i \in 1 .. Len(c.members) : DirOf(c.g, c.members[i].nodes) # 0 /\ DirOf(c.g, c.members[i].nodes) = c.members[i].dir
             /\ \A r \in 1 .. Len(c.g) : \A i \in 1 .. c.g[r].n :
                   LET v == Sym(r, i) IN
                   \* every edge v -> Succ(v) of every ring is covered by exactly one member, in one direction
                   Cardinality({<<m, j>> \in UNION {{<<m, j>> : j \in 1 .. Len(c.members[m].nodes) - 1} : m \in 1 .. Len(c.members)} :
                                   {c.members[m].nodes[j], c.members[m].nodes[j + 1]} = {v, Succ(c.g, v)}
                                   /\ (c.g[r].n > 2)}) = 1
             /\ \A m \in 1 .. Len(c.members) : c.members[m].role = RoleOf(c.g, RingNo(c.members[m].nodes[1]))

Clauses(ln) ==
  LET c == ln.case
      runs == ln.got.runs
      none(i) == \A k \in 1 .. Len(c.masks[runs[i].m]) : ~c.masks[runs[i].m][k]
  IN   {"RingsRecovered" : i \in {i \in RunIdx(ln) : ~RingsRecovered(c.g, Res(runs[i]))}}
  \cup {"RingsRecovered(annotated by annotate.Relations)" : x \in {1} \ {y \in {1} : RingsRecovered(c.g, Res(ln.got.pipe))}}
  \cup {"SameForBothCoordinateSources" :
          p \in {p \in RunIdx(ln) \X RunIdx(ln) : runs[p[1]].m = runs[p[2]].m /\ runs[p[1]].src # runs[p[2]].src
                                                   /\ ~SameGeom(Res(runs[p[1]]), Res(runs[p[2]]))}}
  \cup {"SameWithOrWithoutOrientation" :
          p \in {p \in RunIdx(ln) \X RunIdx(ln) : runs[p[1]].src = runs[p[2]].src /\ none(p[1])
                                                   /\ ~SameGeom(Res(runs[p[1]]), Res(runs[p[2]]))}
                \cup {p \in RunIdx(ln) \X {0} : none(p[1]) /\ runs[p[1]].src = ln.got.pipe.src /\ ~SameGeom(Res(runs[p[1]]), Res(ln.got.pipe))}}
  \cup {"OrientationAnnotated" : x \in {1} \ {y \in {1} : ln.got.annerr = "" /\ OrientationAnnotated(c.g, c.members, ln.got.annot)}}

\* exact prediction by the Model
Predicted(c, src, mask) == RunModel([g |-> c.g, members |-> c.members, mask |-> mask, src |-> src, task |-> "convert"])
Matches(r, s) == ~r.crash /\ r.npoly = (IF s.feature THEN 1 ELSE 0) /\ r.polys = s.mp /\ r.tainted = s.tainted
Divergences(ln) ==
  LET c == ln.case
      runs == ln.got.runs
      n == Len(c.members)
  IN   {<<"run", runs[i].src, runs[i].m>> : i \in {i \in RunIdx(ln) : ~Matches(runs[i], Predicted(c, runs[i].src, c.masks[runs[i].m]))}}
  \cup {<<"pipe">> : x \in {1} \ {y \in {1} : Matches(ln.got.pipe, Predicted(c, "waynodes", AllMask(n)))}}
  \cup {<<"annot">> : x \in {1} \ {y \in {1} :
            ln.got.annot = RunModel([g |-> c.g, members |-> c.members, mask |-> NoneMask(n), src |-> "waynodes", task |-> "annotate"]).annot}}

CONSTANT CheckModel     \* TRUE: also compare with the Model's exact prediction

ASSUME \A i \in 1 .. Len(Lines) : Assert(CaseOK(Lines[i].case), <<"malformed case", i>>)
ASSUME \A i \in 1 .. Len(Lines) :
   LET cl == Clauses(Lines[i])
       dv == IF CheckModel THEN Divergences(Lines[i]) ELSE {}
   IN (cl = {} /\ dv = {}) \/ PrintT(<<"BAD", ToJson([i |-> i, why |-> [clauses |-> cl, div |-> dv], kf |-> {}])>>)
ASSUME PrintT(<<"JUDGED", Len(Lines)>>)

JInit == g = << >> /\ pat = "" /\ cutr = 0 /\ cuts = {} /\ pool = {} /\ members = << >> /\ run = NoRun /\ st = A0
JNext == UNCHANGED vars
=============================================================================
