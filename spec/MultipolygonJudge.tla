-------------------------- MODULE MultipolygonJudge --------------------------
(* Judge for C16.  Every recorded line is                                                                *)
(*   [case |-> [g, members, masks, rtype, norder],                                                       *)
(*    got  |-> [runs  |-> << [src, m (index into masks), npoly, nfeat, polys, tainted, crash, err] >>,   *)
(*              annot |-> << Member.Orientation after annotate.Relations >>, annerr,                     *)
(*              pipe  |-> the run that converts the relation as annotated by annotate.Relations,         *)
(*              vers  |-> << per relation version of case.vers: [annot, pipe] >>, verr] ]                *)
(* runs: separate node objects x every mask of the case, annotated way nodes x masks 1 (none) and 2 (all).  *)
(* Verdict clauses (the listed property):  RingsRecovered for every run, SameForBothCoordinateSources,   *)
(* SameWithOrWithoutOrientation, OrientationAnnotated.  Additionally the exact result predicted by the   *)
(* Model (RunModel) is compared with the recorded one: a mismatch alone is a DIVERGENCE, not a violation.*)
EXTENDS Multipolygon, IOUtils, Json

Lines == ndJsonDeserialize(IOEnv.REC)

Res(r) == [feature |-> r.npoly = 1 /\ ~r.crash, polys |-> r.polys]
RunIdx(ln) == 1 .. Len(ln.got.runs)

\* the case must be a cut of its ground truth (guards the Judge against a broken generator / renderer input):
\* every way walks along one ring, carries its true direction and the role of its ring, and the ways cover
\* every edge of every ring exactly once
CaseOK(c) ==
  LET ms == c.members
      edges == UNION {{{ms[m].nodes[j], ms[m].nodes[j + 1]} : j \in 1 .. Len(ms[m].nodes) - 1} : m \in 1 .. Len(ms)}
      total == LET RECURSIVE Sum(_) Sum(m) == IF m = 0 THEN 0 ELSE Len(ms[m].nodes) - 1 + Sum(m - 1) IN Sum(Len(ms))
      ringEdges == LET RECURSIVE SumN(_) SumN(r) == IF r = 0 THEN 0 ELSE c.g[r].n + SumN(r - 1) IN SumN(Len(c.g))
  IN /\ \A i \in 1 .. Len(ms) : DirOf(c.g, ms[i].nodes) # 0 /\ DirOf(c.g, ms[i].nodes) = ms[i].dir
                                 /\ ms[i].role = RoleOf(c.g, RingNo(ms[i].nodes[1]))
     /\ \A r \in 1 .. Len(c.g) : c.g[r].n >= 3
     /\ Cardinality(edges) = total /\ total = ringEdges
     /\ \A k \in 1 .. Len(c.masks) : Len(c.masks[k]) = Len(ms)
     /\ \A k \in 1 .. Len(c.vers) : Len(c.vers[k]) = Len(ms)

\* the member ways as they are at relation version v
VersMembers(c, v) == [i \in 1 .. Len(c.members) |->
   IF c.vers[v][i] THEN [role |-> c.members[i].role, nodes |-> Reverse(c.members[i].nodes), dir |-> 0 - c.members[i].dir]
   ELSE c.members[i]]

Clauses(ln) ==
  LET c == ln.case
      runs == ln.got.runs
      none(i) == \A k \in 1 .. Len(c.masks[runs[i].m]) : ~c.masks[runs[i].m][k]
      geom == [i \in RunIdx(ln) |-> GeomOf(Res(runs[i]))]
      pgeom == GeomOf(Res(ln.got.pipe))
  IN   {"RingsRecovered" : i \in {i \in RunIdx(ln) : ~RingsRecovered(c.g, Res(runs[i]))}}
  \cup {"RingsRecovered(annotated by annotate.Relations)" : x \in {1} \ {y \in {1} : RingsRecovered(c.g, Res(ln.got.pipe))}}
  \cup {"SameForBothCoordinateSources" :
          p \in {p \in RunIdx(ln) \X RunIdx(ln) : p[1] < p[2] /\ runs[p[1]].m = runs[p[2]].m /\ runs[p[1]].src # runs[p[2]].src
                                                   /\ geom[p[1]] # geom[p[2]]}}
  \cup {"SameWithOrWithoutOrientation" :
          p \in {p \in RunIdx(ln) \X RunIdx(ln) : runs[p[1]].src = runs[p[2]].src /\ none(p[1]) /\ geom[p[1]] # geom[p[2]]}
                \cup {p \in RunIdx(ln) \X {0} : none(p[1]) /\ runs[p[1]].src = ln.got.pipe.src /\ geom[p[1]] # pgeom}}
  \cup {"OrientationAnnotated" : x \in {1} \ {y \in {1} : ln.got.annerr = "" /\ OrientationAnnotated(c.g, c.members, ln.got.annot)}}
  \* a history of the relation (identical member lists, member ways reversed in between) annotated in one call:
  \* every version's members carry the direction of the way version current at that relation version, and every
  \* annotated version converts to the original rings
  \cup {"OrientationAnnotated(relation version)" :
          v \in {v \in 1 .. Len(c.vers) : ~(ln.got.verr = "" /\ Len(ln.got.vers) = Len(c.vers)
                                            /\ OrientationAnnotated(c.g, VersMembers(c, v), ln.got.vers[v].annot))}}
  \cup {"RingsRecovered(annotated relation version)" :
          v \in {v \in 1 .. Len(ln.got.vers) : ~RingsRecovered(c.g, Res(ln.got.vers[v].pipe))}}

\* exact prediction by the Model
Predicted(c, src, mask) == RunModel([g |-> c.g, members |-> c.members, mask |-> mask, src |-> src, task |-> "convert"])
Matches(r, s) == ~r.crash /\ r.npoly = (IF s.feature THEN 1 ELSE 0) /\ r.polys = s.mp /\ r.tainted = s.tainted
Divergences(ln) ==
  LET c == ln.case
      runs == ln.got.runs
      n == Len(c.members)
  IN   {<<"run", runs[i].src, runs[i].m>> : i \in {i \in RunIdx(ln) : ~Matches(runs[i], Predicted(c, runs[i].src, c.masks[runs[i].m]))}}
  \cup {<<"pipe">> : x \in {1} \ {y \in {1} : Matches(ln.got.pipe, Predicted(c, "waynodes", AllMask(n)))}}
  \cup {<<"annot">> : x \in {1} \ {y \in {1} :
            ln.got.annot = RunModel([g |-> c.g, members |-> c.members, mask |-> NoneMask(n), src |-> "waynodes", task |-> "annotate"]).annot}}
  \cup {<<"version", v>> : v \in {v \in 1 .. Len(ln.got.vers) : v <= Len(c.vers) /\ c.vers[v] # NoneMask(n) /\
            ln.got.vers[v].annot # RunModel([g |-> c.g, members |-> VersMembers(c, v), mask |-> NoneMask(n), src |-> "waynodes", task |-> "annotate"]).annot}}

CONSTANT CheckModel     \* TRUE: also compare with the Model's exact prediction

ASSUME \A i \in 1 .. Len(Lines) : Assert(CaseOK(Lines[i].case), <<"malformed case", i>>)
ASSUME \A i \in 1 .. Len(Lines) :
   LET cl == Clauses(Lines[i])
       dv == IF CheckModel THEN Divergences(Lines[i]) ELSE {}
   IN (cl = {} /\ dv = {}) \/ PrintT(<<"BAD", ToJson([i |-> i, why |-> [clauses |-> cl, div |-> dv], kf |-> {}])>>)
ASSUME PrintT(<<"JUDGED", Len(Lines)>>)

JInit == g = << >> /\ pat = "" /\ cutr = 0 /\ cuts = {} /\ pool = {} /\ members = << >> /\ run = NoRun /\ st = A0
JNext == UNCHANGED vars
=============================================================================
