\* thorough tier, design-level model checking, static half: every single-element change against every stored order
\* of every subset of 1..5, the pair family, houses, failing datasource, 3000 random draws of the product space
CONSTANTS
  HMax = 5
  SingleKinds = {"node", "way", "relation"}
  BothVis = FALSE
  PairVers = {2, 3}
  NRandom = 3000
  BuildMax = 0
  BuildIds = {1, 2, 3}
  WithFamilies = TRUE
  StaticInit = TRUE
INIT Init
NEXT Next
INVARIANTS ModelIsExpected ModelMeetsJudge PrefixInv ScanInv
CHECK_DEADLOCK FALSE
