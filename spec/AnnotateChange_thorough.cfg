\* thorough tier, design-level model checking: every single-element change against every stored order of every
\* subset of 1..5, the pair family, 3000 random draws of the product space, and every change of <= 3 elements
\* the generating machine builds (ids 1..3, two worlds of histories)
CONSTANTS
  HMax = 5
  BothVis = FALSE
  PairVers = {2, 3}
  NRandom = 3000
  BuildMax = 3
  BuildIds = {1, 2, 3}
INIT Init
NEXT Next
INVARIANTS ModelIsExpected ModelMeetsJudge PrefixInv ScanInv
CHECK_DEADLOCK FALSE
