CONSTANT Tier = "thorough"
CONSTANT Configs <- GenConfigs
INIT GenInit
NEXT GenNext
INVARIANT Emit
CHECK_DEADLOCK FALSE
