CONSTANT MaxCalls = 0
CONSTANT TokenSeqs = {}
SPECIFICATION TraceSpec
INVARIANT StreamInv
INVARIANT CompleteInv
INVARIANT LaterScansFalse
INVARIANT ErrPrecedence
INVARIANT FalseReasonInv
INVARIANT ReadAheadInv
CONSTRAINT HighWater
POSTCONDITION TraceAccepted
CHECK_DEADLOCK FALSE
