----------------------------- MODULE PbfFormat -----------------------------
(***************************************************************************)
(* The OSM PBF data format as far as its CONTENT is concerned (C01, C08;   *)
(* the damage classes of C06 are transformations of these files).          *)
(*                                                                         *)
(* An abstract file is                                                     *)
(*   [header |-> H, blocks |-> <<B1, ..., Bn>>]                            *)
(* H  = [bbox, req, opt, prog, src, rts, rseq, rurl, zlib, rev, bh]        *)
(*      optional fields are sequences of length 0 (absent) or 1; bbox is   *)
(*      <<>> or <<left, right, top, bottom>>; strings are symbols (small   *)
(*      integers, 0 = the empty string) except the required features,      *)
(*      which are the literal capability names.                            *)
(* B  = [gran, latoff, lonoff, dgran : optional,  st : string table as a   *)
(*       sequence of string symbols (index 0 of the format = st[1]),       *)
(*       zlib, rev : BOOLEAN (blob encoding / field-order layout, both     *)
(*       irrelevant for the content),  groups : sequence of groups]        *)
(* group = [kind |-> "dense", nodes, info, cols, kv]                       *)
(*       | [kind |-> "ways", ways] | [kind |-> "rels", rels]               *)
(*       | [kind |-> "empty"]                                              *)
(*   A dense node carries a value for every column; `info` / `cols` / `kv` *)
(*   say which optional columns are actually written.  Likewise a way or   *)
(*   relation carries all Info values and `info` / `fields` say which are  *)
(*   written.                                                              *)
(*                                                                         *)
(* All numbers are small symbolic integers (TLC integers are 32 bit); the  *)
(* renderer maps ids / versions / changesets / uids injectively and        *)
(* coordinates / timestamps LINEARLY to concrete magnitudes, so the        *)
(* arithmetic the format prescribes (offset + granularity*raw,             *)
(* raw*date_granularity) is done here, on the small numbers, with the      *)
(* literal granularities.                                                  *)
(*                                                                         *)
(* Layers:  DecodeFile / DecodeHeader  = what the format defines           *)
(*          Filtered / ShownOK         = selection by skip flags + filters *)
(*          RunOK / FilteredRunOK      = the Judges of C01 and C08         *)
(* The decoder MECHANISMS (cached iterators, scratch-object reuse) are     *)
(* modelled in PbfFormatCache.tla and PbfFormatArena.tla and checked       *)
(* against these operators.                                                *)
(***************************************************************************)
EXTENDS Integers, Sequences, FiniteSets, TLC

DefaultGranularity     == 100      \* osmformat.proto: granularity      [default = 100]
DefaultDateGranularity == 1000     \*                  date_granularity [default = 1000]
EmptyStr               == 0        \* the string symbol of ""
Capabilities == {"OsmSchema-V0.6", "DenseNodes", "HistoricalInformation"}
MemberTypeName == <<"node", "way", "relation">>      \* Relation.MemberType 0, 1, 2

Opt(o, default) == IF Len(o) = 0 THEN default ELSE o[1]
InSeq(x, s)     == \E i \in 1 .. Len(s) : s[i] = x

RECURSIVE Concat(_)
Concat(ss) == IF ss = << >> THEN << >> ELSE Head(ss) \o Concat(Tail(ss))

Granularity(blk)     == Opt(blk.gran, DefaultGranularity)
DateGranularity(blk) == Opt(blk.dgran, DefaultDateGranularity)
Str(blk, i)          == blk.st[i + 1]                         \* string table lookup, 0-based index
Lat(blk, raw)        == Opt(blk.latoff, 0) + Granularity(blk) * raw     \* coordinate units (nanodegrees / M)
Lon(blk, raw)        == Opt(blk.lonoff, 0) + Granularity(blk) * raw
Stamp(blk, raw)      == << DateGranularity(blk) * raw >>       \* milliseconds (/ T); << >> is "no timestamp"
TagsOf(blk, tags)    == [j \in 1 .. Len(tags) |-> <<Str(blk, tags[j][1]), Str(blk, tags[j][2])>>]

(* ------------------------- what a block decodes to --------------------- *)
\* defaults of absent optional parts: visible = TRUE, zero metadata, no tags
DecodeNode(blk, g, n) ==
  LET H(c) == g.info /\ InSeq(c, g.cols) IN
  [t    |-> "node", id |-> n.id, lat |-> Lat(blk, n.lat), lon |-> Lon(blk, n.lon),
   ver  |-> IF H("version")   THEN n.ver ELSE 0,
   ts   |-> IF H("timestamp") THEN Stamp(blk, n.ts) ELSE << >>,
   cs   |-> IF H("changeset") THEN n.cs ELSE 0,
   uid  |-> IF H("uid")       THEN n.uid ELSE 0,
   user |-> IF H("user_sid")  THEN Str(blk, n.usid) ELSE EmptyStr,
   vis  |-> IF H("visible")   THEN n.vis ELSE TRUE,
   tags |-> IF g.kv THEN TagsOf(blk, n.tags) ELSE << >>]

MetaHas(e, f) == e.info /\ InSeq(f, e.fields)

DecodeWay(blk, w) ==
  [t    |-> "way", id |-> w.id,
   ver  |-> IF MetaHas(w, "version")   THEN w.ver ELSE 0,
   ts   |-> IF MetaHas(w, "timestamp") THEN Stamp(blk, w.ts) ELSE << >>,
   cs   |-> IF MetaHas(w, "changeset") THEN w.cs ELSE 0,
   uid  |-> IF MetaHas(w, "uid")       THEN w.uid ELSE 0,
   user |-> IF MetaHas(w, "user_sid")  THEN Str(blk, w.usid) ELSE EmptyStr,
   vis  |-> IF MetaHas(w, "visible")   THEN w.vis ELSE TRUE,
   tags |-> TagsOf(blk, w.tags),
   nodes |-> [j \in 1 .. Len(w.refs) |->
               << w.refs[j],
                  IF w.loc \in {"both", "lat"} THEN Lat(blk, w.lats[j]) ELSE 0,
                  IF w.loc \in {"both", "lon"} THEN Lon(blk, w.lons[j]) ELSE 0 >>]]

DecodeRel(blk, r) ==
  [t    |-> "relation", id |-> r.id,
   ver  |-> IF MetaHas(r, "version")   THEN r.ver ELSE 0,
   ts   |-> IF MetaHas(r, "timestamp") THEN Stamp(blk, r.ts) ELSE << >>,
   cs   |-> IF MetaHas(r, "changeset") THEN r.cs ELSE 0,
   uid  |-> IF MetaHas(r, "uid")       THEN r.uid ELSE 0,
   user |-> IF MetaHas(r, "user_sid")  THEN Str(blk, r.usid) ELSE EmptyStr,
   vis  |-> IF MetaHas(r, "visible")   THEN r.vis ELSE TRUE,
   tags |-> TagsOf(blk, r.tags),
   members |-> [j \in 1 .. Len(r.mems) |-> << MemberTypeName[r.mems[j][1] + 1], r.mems[j][2], Str(blk, r.mems[j][3]) >>]]

DecodeGroup(blk, g) ==
  CASE g.kind = "dense" -> [i \in 1 .. Len(g.nodes) |-> DecodeNode(blk, g, g.nodes[i])]
    [] g.kind = "ways"  -> [i \in 1 .. Len(g.ways)  |-> DecodeWay(blk, g.ways[i])]
    [] g.kind = "rels"  -> [i \in 1 .. Len(g.rels)  |-> DecodeRel(blk, g.rels[i])]
    [] OTHER            -> << >>

DecodeBlock(blk)   == Concat([g \in 1 .. Len(blk.groups) |-> DecodeGroup(blk, blk.groups[g])])
DecodeBlocks(blks) == Concat([b \in 1 .. Len(blks) |-> DecodeBlock(blks[b])])
DecodeFile(file)   == DecodeBlocks(file.blocks)

\* Header(): every field unchanged; an absent field is its zero value
DecodeHeader(h) ==
  [nil |-> FALSE, bbox |-> h.bbox, req |-> h.req, opt |-> h.opt,
   prog |-> Opt(h.prog, EmptyStr), src |-> Opt(h.src, EmptyStr),
   rts |-> h.rts, rseq |-> Opt(h.rseq, 0), rurl |-> Opt(h.rurl, EmptyStr)]

(* ------------------------------ validity -------------------------------- *)
\* "valid PBF file" in the sense of C01's quantifier (dense nodes, ways, relations).
IsOpt(o)        == Len(o) \in {0, 1}
StrIdxOK(blk,i) == i \in 0 .. Len(blk.st) - 1
TagsOK(blk, ts) == \A j \in 1 .. Len(ts) : StrIdxOK(blk, ts[j][1]) /\ StrIdxOK(blk, ts[j][2]) /\ ts[j][1] # 0
                   \* key index 0 is the delimiter of keys_vals: never a key
ValidGroup(blk, g) ==
  CASE g.kind = "dense" -> /\ Len(g.nodes) >= 1
                           /\ \A i \in 1 .. Len(g.nodes) : TagsOK(blk, g.nodes[i].tags) /\ StrIdxOK(blk, g.nodes[i].usid)
    [] g.kind = "ways"  -> \A i \in 1 .. Len(g.ways) : LET w == g.ways[i] IN
                             /\ TagsOK(blk, w.tags) /\ StrIdxOK(blk, w.usid)
                             /\ w.loc \in {"none", "both", "lat", "lon"}
                             /\ (w.loc \in {"both", "lat"} => Len(w.lats) = Len(w.refs))
                             /\ (w.loc \in {"both", "lon"} => Len(w.lons) = Len(w.refs))
    [] g.kind = "rels"  -> \A i \in 1 .. Len(g.rels) : LET r == g.rels[i] IN
                             /\ TagsOK(blk, r.tags) /\ StrIdxOK(blk, r.usid)
                             /\ \A j \in 1 .. Len(r.mems) : r.mems[j][1] \in 0 .. 2 /\ StrIdxOK(blk, r.mems[j][3])
    [] OTHER            -> g.kind = "empty"
ValidBlock(blk) ==
  /\ IsOpt(blk.gran) /\ IsOpt(blk.latoff) /\ IsOpt(blk.lonoff) /\ IsOpt(blk.dgran)
  /\ Len(blk.st) >= 1 /\ blk.st[1] = EmptyStr
  /\ \A g \in 1 .. Len(blk.groups) : ValidGroup(blk, blk.groups[g])
ValidHeader(h) ==
  /\ Len(h.bbox) \in {0, 4} /\ IsOpt(h.prog) /\ IsOpt(h.src) /\ IsOpt(h.rts) /\ IsOpt(h.rseq) /\ IsOpt(h.rurl)
  /\ \A i \in 1 .. Len(h.req) : h.req[i] \in Capabilities
ValidFile(file) == ValidHeader(file.header) /\ \A b \in 1 .. Len(file.blocks) : ValidBlock(file.blocks[b])

(* -------------------------- C01: the Judge ------------------------------ *)
\* One run = one complete use of osmpbf.New(ctx, r, procs).Scan/Object/Err and Header() on the rendered file.
ElemsOK(file, run)  == run.elems = DecodeFile(file)             \* element-wise, field-wise, in file order
HeaderOK(file, run) == run.header = DecodeHeader(file.header)
RunOK(file, run)    == run.err = "" /\ run.herr = "" /\ ElemsOK(file, run) /\ HeaderOK(file, run)

FirstDiff(a, b) == IF \E i \in 1 .. Len(a) : i > Len(b) \/ a[i] # b[i]
                   THEN CHOOSE i \in 1 .. Len(a) : (i > Len(b) \/ a[i] # b[i]) /\ \A j \in 1 .. i - 1 : j <= Len(b) /\ a[j] = b[j]
                   ELSE Len(a) + 1
RunWhy(file, run) ==
  IF run.err # "" \/ run.herr # "" THEN <<"error", run.procs, run.err, run.herr, "reader", run.reader>>
  ELSE IF ~HeaderOK(file, run) THEN <<"header", run.procs, "expected", DecodeHeader(file.header), "got", run.header>>
  ELSE LET exp == DecodeFile(file)  i == FirstDiff(exp, run.elems) IN
       <<"element", i, "procs", run.procs, "profile", run.profile,
         "expected", IF i <= Len(exp) THEN <<exp[i]>> ELSE << >>,
         "got", IF i <= Len(run.elems) THEN <<run.elems[i]>> ELSE << >> >>

(* ----------------- C08: skip flags and filters -------------------------- *)
TypeIdx(t) == CASE t = "node" -> 1 [] t = "way" -> 2 [] t = "relation" -> 3
\* skip, inst : <<nodes, ways, relations>> of BOOLEAN (type skipped / a filter function is installed for the type);
\* accept     : the predicate as the sequence of positions (in DecodeFile(file)) it accepts.
Keeps(all, skip, inst, accept, i) ==
  /\ ~skip[TypeIdx(all[i].t)]
  /\ (inst[TypeIdx(all[i].t)] => InSeq(i, accept))
SelectIdx(all, K(_)) ==
  LET F[i \in 0 .. Len(all)] == IF i = 0 THEN << >> ELSE IF K(i) THEN Append(F[i - 1], all[i]) ELSE F[i - 1]
  IN F[Len(all)]
Filtered(file, skip, inst, accept) ==
  LET all == DecodeFile(file) IN SelectIdx(all, LAMBDA i : Keeps(all, skip, inst, accept, i))

\* "for which the filter returned true": the filter must have been evaluated on the element itself, i.e. every value
\* it was shown is a (complete) element of a non-skipped type that has a filter, and each such element was shown.
\* (How often it is shown is not constrained by the property; the order across decoders is schedule dependent.)
ShownOK(file, skip, inst, shown) ==
  LET all  == DecodeFile(file)
      must == {i \in 1 .. Len(all) : ~skip[TypeIdx(all[i].t)] /\ inst[TypeIdx(all[i].t)]} IN
  /\ \A j \in 1 .. Len(shown) : \E i \in must : shown[j] = all[i]
  /\ \A i \in must : \E j \in 1 .. Len(shown) : shown[j] = all[i]

NoneMutated(run) == \A i \in 1 .. Len(run.mutated) : run.mutated[i] = FALSE

FilteredRunOK(c, run) ==
  /\ run.err = ""
  /\ run.elems = Filtered(c.file, c.skip, c.inst, c.accept)      \* nil == empty: both are << >>
  /\ NoneMutated(run)
  /\ ShownOK(c.file, c.skip, c.inst, run.shown)

(* Stateful filters (the verdict depends on earlier calls: alternating, first N, first occurrence).  With several   *)
(* decoders the order in which the filter functions are called is schedule dependent, so the verdicts cannot be  *)
(* computed from the case; the recorder logs every call <<type, id, verdict>> in the order made and the property *)
(* is judged on the verdicts the filter actually returned: "the elements ... for which the filter returned true". *)
(* The statement presupposes one verdict per element.  If an implementation asks several times and the answers   *)
(* differ, the FIRST answer - the one given when the decoder asked, before the element could be delivered - is   *)
(* the filter's verdict: an element the filter returned true for must be delivered (asking again and dropping it  *)
(* on a later false breaks the property), and one it returned false for must not be (its memory is reused).       *)
FirstVerdict(calls, t, id) ==
  LET S == {j \in 1 .. Len(calls) : calls[j][1] = t /\ calls[j][2] = id} IN
  IF S = {} THEN FALSE ELSE calls[CHOOSE j \in S : \A k \in S : j <= k][3]
DeliveredByVerdicts(file, skip, inst, calls) ==
  LET all == DecodeFile(file) IN
  SelectIdx(all, LAMBDA i : /\ ~skip[TypeIdx(all[i].t)]
                            /\ (inst[TypeIdx(all[i].t)] => FirstVerdict(calls, all[i].t, all[i].id)))
IsStateful(c) == "fkind" \in DOMAIN c /\ c.fkind # "pos"
StatefulRunOK(c, run) ==
  /\ run.err = ""
  /\ run.elems = DeliveredByVerdicts(c.file, c.skip, c.inst, run.calls)
  /\ NoneMutated(run)
  /\ ShownOK(c.file, c.skip, c.inst, run.shown)
StatefulRunWhy(c, run) ==
  IF run.err # "" THEN <<"error", run.procs, run.err, "reader", run.reader>>
  ELSE IF ~NoneMutated(run) THEN <<"returned object modified afterwards", "procs", run.procs, run.mutated>>
  ELSE LET exp == DeliveredByVerdicts(c.file, c.skip, c.inst, run.calls) IN
       IF run.elems # exp
       THEN LET i == FirstDiff(exp, run.elems) IN
            <<"filter kind", c.fkind, "element", i, "procs", run.procs,
              "expected (first verdict true)", IF i <= Len(exp) THEN <<exp[i]>> ELSE << >>,
              "got", IF i <= Len(run.elems) THEN <<run.elems[i]>> ELSE << >>, "calls", Len(run.calls)>>
       ELSE <<"filter was not shown exactly the elements of the non-skipped types", "procs", run.procs>>

FilteredRunWhy(c, run) ==
  IF run.err # "" THEN <<"error", run.procs, run.err, "reader", run.reader>>
  ELSE IF ~NoneMutated(run) THEN <<"returned object modified afterwards", "procs", run.procs, run.mutated>>
  ELSE LET exp == Filtered(c.file, c.skip, c.inst, c.accept) IN
       IF run.elems # exp
       THEN LET i == FirstDiff(exp, run.elems) IN
            <<"element", i, "procs", run.procs, "expected", IF i <= Len(exp) THEN <<exp[i]>> ELSE << >>,
              "got", IF i <= Len(run.elems) THEN <<run.elems[i]>> ELSE << >> >>
       ELSE <<"filter was not shown exactly the elements of the non-skipped types", "procs", run.procs>>
=============================================================================
