CONSTANTS
  NK = 1
  MaxV = 1
  MaxP = 1
  MaxT = 1
  MaxDt = 1
  CsSet = {1}
  ParentCsFree = TRUE
  RefLists = {}
  SameTimeParents = TRUE
  RefsMustExist = TRUE
  OptSet = {}
  PinnedSort = FALSE
INIT JInit
NEXT JNext
CHECK_DEADLOCK FALSE
