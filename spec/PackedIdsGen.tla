----------------------------- MODULE PackedIdsGen -----------------------------
(* Writes the abstract cases of PackedIdsSpace as ndjson (IOEnv.OUT).         *)
(* One file per family: <OUT>.val, <OUT>.pair, <OUT>.big, <OUT>.text.                    *)
EXTENDS PackedIdsSpace, IOUtils, Json
CONSTANT Full
Want(f) == IOEnv.WHAT = "all" \/ IOEnv.WHAT = f      \* "all" in one process, or one family per process
ASSUME Want("val")  => ndJsonSerialize(IOEnv.OUT \o ".val", SetToSeq(ValCases(Full)))
ASSUME Want("pair") => ndJsonSerialize(IOEnv.OUT \o ".pair", SetToSeq(PairCases(Full)))
ASSUME Want("big")  => (\A c \in BigSortCases(Full) : BigOK(c)) /\ ndJsonSerialize(IOEnv.OUT \o ".big", SetToSeq(BigSortCases(Full)))
ASSUME Want("text") => ndJsonSerialize(IOEnv.OUT \o ".text", SetToSeq(TextCases(Full)))
VARIABLE dummy
GInit == dummy = 0
GNext == UNCHANGED dummy
=============================================================================
