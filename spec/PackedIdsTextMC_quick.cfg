CONSTANTS MaxLen = 5 AlphabetName = "core"
INIT Init
NEXT Next
INVARIANT TextConforms
CHECK_DEADLOCK FALSE
