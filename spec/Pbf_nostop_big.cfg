CONSTANT Configs <- CfgsNoStopBig
INIT Init
NEXT Next
VIEW View
INVARIANTS TypeOK OrderInv CompleteInv OffsetInv ErrPrecedenceInv
CHECK_DEADLOCK FALSE
