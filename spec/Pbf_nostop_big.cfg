CONSTANT Configs <- CfgsNoStopBig
INIT Init
NEXT Next
VIEW View
INVARIANTS TypeOK OrderInv CompleteInv OffsetInv ErrPrecedenceInv
PROPERTIES DeliverStep OffsetStep
CHECK_DEADLOCK FALSE
