CONSTANTS
  NK = 2
  MaxV <- V21
  MaxP = 2
  MaxT = 3
  MaxDt = 1
  CsSet = {1}
  ParentCsFree = TRUE
  RefLists <- RefsSmall
  SameTimeParents = TRUE
  RefsMustExist = FALSE
  OptSet <- OptsMixed
  PinnedSort = FALSE
INIT Init
NEXT Next
INVARIANTS TypeOK JudgesHold SortedInv Deterministic PartialInv
CHECK_DEADLOCK FALSE
