------------------------------ MODULE PbfRace ------------------------------
(* Access-granularity model of the memory shared by the serializer goroutine   *)
(* and the consumer (decode.go: dec.cData).  Sync ops: channel send/recv/close *)
(* and ctx cancel/Done.  Plain ops: reads/writes of cData.                     *)
EXTENDS Integers, Sequences

CONSTANTS Items, Fixed    \* Items: number of data items before EOF; Fixed: terminal error kept in its own field

VARIABLES spc, cpc, cancelled, serq, serClosed, sent

vars == << spc, cpc, cancelled, serq, serClosed, sent >>

Init == spc = "loop" /\ cpc = "recv" /\ cancelled = FALSE /\ serq = << >> /\ serClosed = FALSE /\ sent = 0

\* serializer
S_Send == spc = "loop" /\ Len(serq) < 2
          /\ serq' = Append(serq, IF sent < Items THEN "data" ELSE "eof")
          /\ sent' = sent + 1
          /\ spc' = (IF sent < Items THEN "loop" ELSE "close")
          /\ UNCHANGED << cpc, cancelled, serClosed >>
S_Done == spc = "loop" /\ cancelled /\ spc' = "wErr" /\ UNCHANGED << cpc, cancelled, serq, serClosed, sent >>
S_WriteErr == spc = "wErr" /\ spc' = "close" /\ UNCHANGED << cpc, cancelled, serq, serClosed, sent >>   \* plain write
S_Close == spc = "close" /\ serClosed' = TRUE /\ cancelled' = TRUE /\ spc' = "done"
           /\ UNCHANGED << cpc, serq, sent >>

\* consumer (decoder.Next)
C_Recv == cpc = "recv" /\
          \/ serq # << >> /\ serq' = Tail(serq)
               /\ cpc' = (IF Head(serq) = "eof" THEN "rErrEof" ELSE "store")
               /\ UNCHANGED << spc, cancelled, serClosed, sent >>
          \/ serq = << >> /\ serClosed /\ cpc' = "rErrClosed" /\ UNCHANGED << spc, cancelled, serq, serClosed, sent >>
C_Store == cpc = "store" /\ cpc' = "ret" /\ UNCHANGED << spc, cancelled, serq, serClosed, sent >>      \* plain write of cData
C_Ret == cpc = "ret" /\ cpc' = "recv" /\ UNCHANGED << spc, cancelled, serq, serClosed, sent >>         \* plain read of cData.Err
C_ReadErr == cpc \in {"rErrEof", "rErrClosed"} /\ cpc' = "end" /\ UNCHANGED << spc, cancelled, serq, serClosed, sent >>

Cancel == ~cancelled /\ cancelled' = TRUE /\ UNCHANGED << spc, cpc, serq, serClosed, sent >>

Next == S_Send \/ S_Done \/ S_WriteErr \/ S_Close \/ C_Recv \/ C_Store \/ C_Ret \/ C_ReadErr \/ Cancel

\* which consumer steps touch the location the serializer writes at "wErr"
ConsumerTouches ==
  IF Fixed THEN cpc \in {"rErrClosed"}                       \* own field, read only after the queue is seen closed
           ELSE cpc \in {"store", "ret", "rErrEof", "rErrClosed"}
NoConcurrentConflict == ~(spc = "wErr" /\ ConsumerTouches)
=============================================================================
