----------------------------- MODULE GeoJsonMC -----------------------------
(* C17 - design level: Convert as a step machine (one element per step,    *)
(* using the pass operators of GeoJson.tla) over every data set of          *)
(* GeoJsonSpace (as written by GeoJsonGen) x every option set; TLC checks   *)
(* Model |= Judges.                                                        *)
EXTENDS GeoJson, IOUtils, Json

\* the data sets are the very cases GeoJsonGen wrote for replay into the real code (ndjson, IOEnv.CASES)
DSeq == ndJsonDeserialize(IOEnv.CASES)

VARIABLES ds,      \* the input data set (never changes: InputUnmodified at design level)
          opts,    \* the option set of this conversion
          pc,      \* "pick" | "rel" | "way" | "node" | "done"
          idx,     \* next element of the current pass
          skip,    \* ctx.skippable
          used,    \* ways already rendered under their own identity by a multipolygon relation
          fixed,   \* variant of the Model: FALSE = pinned code, TRUE = with fixes/C17-shared-outer.diff
          feats    \* features emitted so far
vars == <<ds, opts, pc, idx, skip, used, fixed, feats>>

CONSTANTS Chunks,  \* the data sets are dealt into this many chunks so that TLC's workers share the enumeration
          FormerTree,\* FALSE: the machine is the tree as it is (identity and memberships independent of the id class);
                   \* TRUE: the tree before fixes b715ff7 / 51b669e (FeatureID keyed), to re-check that transcription
          Variants,\* the Model variants explored: {FALSE} or {FALSE, TRUE}
          FullFor  \* the families (case.fam) whose cases the machine runs under all 16 option sets; the other
                   \* cases run under {} and under all four options only (the functional composition ConvV is
                   \* judged under all 16 either way: OptionsInv, AllOptionSetsInv)
McOpts(c) == IF c.fam \in FullFor THEN OptSets ELSE {{}, Options}
Empty == [nodes |-> << >>, ways |-> << >>, rels |-> << >>, ids |-> SmallIds]
DsOf(c) == [nodes |-> c.nodes, ways |-> c.ways, rels |-> c.rels, ids |-> c.ids]

Init == ds = Empty /\ opts = {} /\ pc = "pick" /\ idx \in 1 .. Chunks /\ skip = {} /\ used = {} /\ fixed \in Variants /\ feats = << >>

Pick == /\ pc = "pick"
        /\ \E k \in {j \in DOMAIN DSeq : j % Chunks = idx % Chunks} : ds' = (IF FormerTree THEN DsOf(DSeq[k]) ELSE Ideal(DsOf(DSeq[k]))) /\ opts' \in McOpts(DSeq[k])
        /\ pc' = "rel" /\ idx' = 1 /\ UNCHANGED <<skip, used, fixed, feats>>

RelStep == /\ pc = "rel" /\ idx <= Len(ds.rels)
           /\ LET x == RelResult(ds, opts, ds.rels[idx], used, fixed)
              IN feats' = feats \o x.feat /\ skip' = skip \cup x.skip /\ used' = used \cup x.used
           /\ idx' = idx + 1 /\ UNCHANGED <<ds, opts, pc, fixed>>
RelDone == /\ pc = "rel" /\ idx > Len(ds.rels)
           /\ pc' = "way" /\ idx' = 1 /\ UNCHANGED <<ds, opts, skip, used, fixed, feats>>
WayStep == /\ pc = "way" /\ idx <= Len(ds.ways)
           /\ feats' = feats \o WayResult(ds, opts, skip, ds.ways[idx])
           /\ idx' = idx + 1 /\ UNCHANGED <<ds, opts, pc, skip, used, fixed>>
WayDone == /\ pc = "way" /\ idx > Len(ds.ways)
           /\ pc' = "node" /\ idx' = 1 /\ UNCHANGED <<ds, opts, skip, used, fixed, feats>>
NodeStep == /\ pc = "node" /\ idx <= Len(ds.nodes)
            /\ feats' = feats \o NodeResult(ds, opts, ds.nodes[idx])
            /\ idx' = idx + 1 /\ UNCHANGED <<ds, opts, pc, skip, used, fixed>>
NodeDone == /\ pc = "node" /\ idx > Len(ds.nodes)
            /\ pc' = "done" /\ UNCHANGED <<ds, opts, idx, skip, used, fixed, feats>>

Next == Pick \/ RelStep \/ RelDone \/ WayStep \/ WayDone \/ NodeStep \/ NodeDone
Spec == Init /\ [][Next]_vars

Done == pc = "done"

(* ---- design level: Model |= Judges --------------------------------------- *)
\* With FormerTree the machine transcribes the tree before fixes b715ff7 / 51b669e, including what it did with ids
\* that do not fit osm.FeatureID: the Judges are checked on the ideal variant (the same data set with ids that fit),
\* and the former tree must coincide with the ideal variant on every data set on which no known-finding predicate
\* holds.  Without FormerTree (the tree as it is) the machine is the ideal variant itself.
KFid(d) == KF_PolygonIdentityViaFeatureID(d) \/ KF_NegativeIdsShareMembershipKey(d)
\* (the Model reads ds.ids only through Fits and = "neg": when all three classes fit, the two variants are the same expression)
AllFit(d) == \A t \in {"node", "way", "relation"} : Fits(d.ids[t])
IdealFeats == IF AllFit(ds) THEN feats ELSE ConvV(Ideal(ds), opts, fixed)
ModelledOnly  == \A i \in DOMAIN feats : feats[i].g # Unmodelled
MachineIsConv == Done => FeatsEq(feats, ConvV(ds, opts, fixed))
AsIsIsIdeal   == (Done /\ ~KFid(ds)) => FeatsEq(feats, IdealFeats)
\* the variant before fix 626c4a8 has the (fixed) finding; the variant with the fix satisfies the Judge outright
AtMostOneInv  == Done => (J_AtMostOne(ds, IdealFeats) \/ (~fixed /\ KF_SharedOldStyleOuter(ds) /\ OnlySharedOuterDuplicates(ds, IdealFeats)))
CarriesInv    == Done => J_Carries(ds, opts, IdealFeats)
MetaMemberInv == Done => J_MetaMembership(ds, opts, IdealFeats)
NodeRuleInv   == Done => J_NodeRule(ds, IdealFeats)
WayGeomInv    == Done => J_WayGeometry(ds, IdealFeats)
RouteInv      == Done => J_Route(ds, IdealFeats)
\* evaluated once per data set (at the end of the conversion without options), over the Model's 16 results
OptionsInv    == (Done /\ opts = {}) =>
                   /\ J_Options(ds, [O \in OptSets |-> ConvV(Ideal(ds), O, fixed)])
                   /\ ((~KFid(ds) /\ ~AllFit(ds)) => \A O \in OptSets : FeatsEq(ConvV(ds, O, fixed), ConvV(Ideal(ds), O, fixed)))
\* ... and all judges on the functional composition under each of the 16 option sets
AllOptionSetsInv ==
  (Done /\ opts = {}) => \A O \in OptSets : LET F == ConvV(Ideal(ds), O, fixed) IN
     /\ (J_AtMostOne(ds, F) \/ (~fixed /\ KF_SharedOldStyleOuter(ds) /\ OnlySharedOuterDuplicates(ds, F)))
     /\ J_Carries(ds, O, F) /\ J_MetaMembership(ds, O, F)
     /\ J_NodeRule(ds, F) /\ J_WayGeometry(ds, F) /\ J_Route(ds, F)
     /\ \A i \in DOMAIN F : F[i].g # Unmodelled
\* the skippable set only ever holds ways that are members of rendered relations (what the Judge is silent about)
SkipInv       == \A wid \in skip : InRenderedRel(ds, wid)
\* InputUnmodified / option set unmodified, at design level
InputUnmodified == [][pc # "pick" => (ds' = ds /\ opts' = opts /\ fixed' = fixed)]_vars
=============================================================================
