CONSTANT Big = TRUE
INIT DInit
NEXT Next
INVARIANT DecodeIsWhole
INVARIANT TreeNamesOK
INVARIANT UnknownIgnored
INVARIANT StreamIsWhole
INVARIANT ChangeStreamIsWhole
CHECK_DEADLOCK FALSE
