---------------------------- MODULE OsmApiJudge ----------------------------
(* Judge for C20.  Every recorded line is [case |-> the generated case,      *)
(* ev |-> the events recorded while the real call ran].  A line is BAD when  *)
(* at least one clause of OsmApi!Judge fails on it; why = the failing clauses.*)
EXTENDS OsmApi, IOUtils, Json
Lines == ndJsonDeserialize(IOEnv.REC)
Bad(ln) == Failing(CallOf(ln.case), ObsLog(CallOf(ln.case), ln.ev))
ASSUME \A i \in 1 .. Len(Lines) :
          Bad(Lines[i]) = {} \/ PrintT(<<"BAD", ToJson([i |-> i, why |-> Bad(Lines[i]), kf |-> {}])>>)
ASSUME PrintT(<<"JUDGED", Len(Lines)>>)
JInit == c = 0 /\ pc = 0 /\ pend = 0 /\ log = 0
JNext == UNCHANGED vars
=============================================================================
