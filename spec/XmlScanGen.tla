----------------------------- MODULE XmlScanGen -----------------------------
(* Call histories for the real osmxml.Scanner: small inputs given as a list *)
(* of pieces (one piece = one token of XmlScan), and sequential call        *)
(* histories  [CancelAt j] . Scan^k . (Close | Cancel)? . (Scan|Err|Close)^n *)
(* for every k from 0 to past the end.  The element and attribute names of  *)
(* the pieces come from the schema tables of OsmDoc.                        *)
EXTENDS XmlScan, OsmDoc, IOUtils, Json

CONSTANT Big
Raw(text) == [n |-> "", a |-> << >>, c |-> << >>, t |-> <<"=" \o text>>]
IdLeaf(i) == "i" \o ToString(i)
ObjTree(kind, i) == ElemTree(ItemRow("OSM", kind).xml, kind, [ID |-> IdLeaf(i)])
\* item = <<token, piece>>
ObjItem(kind, i) == <<Tok("obj", IdLeaf(i)), ObjTree(kind, i)>>
\* a known element whose content cannot be decoded: the id is not a number
BadObjItem(kind, i) == <<Tok("badobj", IdLeaf(i)), ElemTree(ItemRow("OSM", kind).xml, kind, [ID |-> "=x"])>>
Skip(text) == <<Tok("skip", "nil"), Raw(text)>>
Open(name) == Skip("<" \o name \o ">")
Close(name) == Skip("</" \o name \o ">")
Bad == <<Tok("bad", "nil"), Raw("<" \o UnknownElem \o " <")>>
Root == RootName["OSM"]
Blk == RowOf("Change", "Create").xml
ScanDocs ==
  << \* every neighbourhood: objects of several kinds, an unknown element, a block, a comment
     <<Open(Root), ObjItem("Node", 1), Open(UnknownElem), Close(UnknownElem), ObjItem("Way", 2), Open(Blk), ObjItem("Node", 3),
       Close(Blk), Skip("<!-- c -->"), ObjItem("Relation", 4), Close(Root)>>,
     <<Open(Root), ObjItem("Node", 1), Bad, ObjItem("Node", 2), Close(Root)>>,
     <<Open(Root), ObjItem("Changeset", 1), BadObjItem("Node", 2), ObjItem("Node", 3), Close(Root)>>,
     <<Open(Root), Close(Root)>>,
     << >>,
     <<Open(Root), ObjItem("User", 1), ObjItem("Note", 2), ObjItem("Relation", 3), Close(Root)>> >>

Op(o, j) == [o |-> o, j |-> j]
Rep(x, n) == [i \in 1 .. n |-> x]
Tails(n) == UNION {[1 .. m -> {Op("Scan", 0), Op("Err", 0), Op("Close", 0)}] : m \in 0 .. n}
NObj(d) == Len(SelectSeq(d, LAMBDA it : it[1].k = "obj"))
\* quick tier: every tail of length <= 1 and the two-call tails that ask Err or Scan after a stop
QuickTails == Tails(1) \cup {<<Op("Scan", 0), Op("Err", 0)>>, <<Op("Close", 0), Op("Err", 0)>>, <<Op("Err", 0), Op("Scan", 0)>>,
                             <<Op("Close", 0), Op("Scan", 0)>>}
Histories(d, di) ==
  LET tl == IF Big THEN Tails(3) ELSE QuickTails
      ks == 0 .. NObj(d) + (IF Big THEN 2 ELSE 1)
      arms == IF Big \/ di <= 3 THEN 1 .. Len(d) + 1 ELSE {1, Len(d) + 1}
  IN {Rep(Op("Scan", 0), k) \o stop \o t : k \in ks, stop \in {<< >>, <<Op("Close", 0)>>, <<Op("Cancel", 0)>>}, t \in tl}
     \cup {<<Op("CancelAt", j)>> \o Rep(Op("Scan", 0), k) \o t : j \in arms, k \in ks, t \in tl}
ScanCase(d, ops) == [toks |-> [i \in 1 .. Len(d) |-> d[i][1]], pieces |-> [i \in 1 .. Len(d) |-> d[i][2]], ops |-> ops, idfield |-> "ID"]
\* Long runs of tokens that yield no object (unknown elements, comments), between two objects and before the end of the
\* input, with the cancellation arriving from the reader while a Scan is at the start / in the middle / at the end of the run
\* (and, for comparison, Close / Cancel between calls in front of the run): a Scan in flight must not run on through the run.
RunLen == IF Big THEN 60 ELSE 30
SkipRun == [i \in 1 .. RunLen |-> IF i % 3 = 0 THEN Skip("<!-- c" \o ToString(i) \o " -->") ELSE IF i % 3 = 1 THEN Open(UnknownElem) ELSE Close(UnknownElem)]
RunDocs == << <<Open(Root), ObjItem("Node", 1)>> \o SkipRun \o <<ObjItem("Node", 2), Close(Root)>>,
              <<Open(Root), ObjItem("Way", 1)>> \o SkipRun \o <<Close(Root)>> >>
RunTails == {<< >>, <<Op("Err", 0)>>, <<Op("Scan", 0), Op("Err", 0)>>, <<Op("Close", 0), Op("Err", 0), Op("Scan", 0)>>}
RunHistories ==
  {<<Op("CancelAt", j)>> \o Rep(Op("Scan", 0), k) \o t : j \in {3, 4, 3 + RunLen \div 2, 2 + RunLen}, k \in 1 .. 3, t \in RunTails}
  \cup {<<Op("Scan", 0)>> \o stop \o <<Op("Scan", 0)>> \o t : stop \in {<<Op("Close", 0)>>, <<Op("Cancel", 0)>>}, t \in RunTails}
ScanCases == UNION {{ScanCase(ScanDocs[di], h) : h \in Histories(ScanDocs[di], di)} : di \in 1 .. Len(ScanDocs)}
             \cup UNION {{ScanCase(RunDocs[di], h) : h \in RunHistories} : di \in 1 .. Len(RunDocs)}
ASSUME ndJsonSerialize(IOEnv.OUT, SetToSeq(ScanCases))
GInit == InitWith(<< >>)
GNext == UNCHANGED vars
=============================================================================
