CONSTANT Big = TRUE
INIT GInit
NEXT Next
CHECK_DEADLOCK FALSE
