CONSTANTS
  NK = 2
  MaxV <- V21
  MaxP = 2
  MaxT = 1
  MaxDt = 1
  CsSet = {1}
  ParentCsFree = TRUE
  RefLists <- RefsPair
  SameTimeParents = TRUE
  RefsMustExist = FALSE
  OptSet <- OptsOrder
  PinnedSort = FALSE
SPECIFICATION Spec
PROPERTY Terminates
CHECK_DEADLOCK FALSE
