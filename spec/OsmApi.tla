------------------------------- MODULE OsmApi -------------------------------
(* C20 - osmapi calls hit the documented endpoint and map statuses to typed *)
(* errors.                                                                  *)
(*                                                                          *)
(* Three layers in one module:                                              *)
(*   1. the OSM API v0.6 endpoint table (literal path templates and query   *)
(*      parameter names, transcribed from the API documentation, NOT from   *)
(*      the Go source) and the documented value ranges of the options;      *)
(*   2. the Model: one osmapi call as a protocol state machine              *)
(*         Begin -> [Wait] -> Get -> Respond -> Return                      *)
(*      with the limiter and the server as a nondeterministic environment;  *)
(*   3. the Judges: the clauses of property C20 as predicates over a call   *)
(*      configuration and the observable event log of that call.  The same  *)
(*      operators are (a) invariants of the Model (design level, TLC) and   *)
(*      (b) evaluated by TLC on event logs recorded from the real code      *)
(*      (OsmApiJudge), while OsmApiTrace validates the recorded event       *)
(*      sequences step by step against the Model's actions.                 *)
EXTENDS Integers, Sequences, FiniteSets, TLC, SequencesExt

CONSTANT Wide            \* FALSE: small input space (quick tier), TRUE: wide (thorough tier)

(* ======================================================================== *)
(* 1. Documented endpoint table                                             *)
(* ======================================================================== *)
Kinds    == <<"node", "way", "relation", "changeset", "note", "user">>
KindSet  == {Kinds[i] : i \in DOMAIN Kinds}
Sections == <<"", "create", "modify", "delete">>      \* "" = plain <osm> document

\* path : path template below the API base, "#id" / "#version" are placeholders
\* arg  : argument shape of the call    "id" | "idver" | "ids" | "bbox" | "q"
\* qkey : name of the query parameter that carries the argument ("" = none)
\* fix  : fixed query parameters of the endpoint
\* opt  : option family accepted        "feature" | "notes" | "none"
\* ret  : element kinds the call hands back; own = the kind counted for single-element calls
\* one  : single-element call
\* root : root element of the response document
E(path, arg, qkey, fix, opt, ret, own, one, root) ==
  [path |-> path, arg |-> arg, qkey |-> qkey, fix |-> fix, opt |-> opt, ret |-> ret, own |-> own, one |-> one, root |-> root]

None == << >>
EP ==
     \* GET /api/0.6/[node|way|relation]/#id
     "Node"              :> E(<<"node", "#id">>,                 "id",    "",          None, "feature", {"node"},     "node",     TRUE,  "osm")
  @@ "Way"               :> E(<<"way", "#id">>,                  "id",    "",          None, "feature", {"way"},      "way",      TRUE,  "osm")
  @@ "Relation"          :> E(<<"relation", "#id">>,             "id",    "",          None, "feature", {"relation"}, "relation", TRUE,  "osm")
     \* GET /api/0.6/[node|way|relation]/#id/#version
  @@ "NodeVersion"       :> E(<<"node", "#id", "#version">>,     "idver", "",          None, "none",    {"node"},     "node",     TRUE,  "osm")
  @@ "WayVersion"        :> E(<<"way", "#id", "#version">>,      "idver", "",          None, "none",    {"way"},      "way",      TRUE,  "osm")
  @@ "RelationVersion"   :> E(<<"relation", "#id", "#version">>, "idver", "",          None, "none",    {"relation"}, "relation", TRUE,  "osm")
     \* GET /api/0.6/[node|way|relation]/#id/history
  @@ "NodeHistory"       :> E(<<"node", "#id", "history">>,      "id",    "",          None, "none",    {"node"},     "node",     FALSE, "osm")
  @@ "WayHistory"        :> E(<<"way", "#id", "history">>,       "id",    "",          None, "none",    {"way"},      "way",      FALSE, "osm")
  @@ "RelationHistory"   :> E(<<"relation", "#id", "history">>,  "id",    "",          None, "none",    {"relation"}, "relation", FALSE, "osm")
     \* GET /api/0.6/[nodes|ways|relations]?[nodes|ways|relations]=id,id,...
  @@ "Nodes"             :> E(<<"nodes">>,                       "ids",   "nodes",     None, "feature", {"node"},     "node",     FALSE, "osm")
  @@ "Ways"              :> E(<<"ways">>,                        "ids",   "ways",      None, "feature", {"way"},      "way",      FALSE, "osm")
  @@ "Relations"         :> E(<<"relations">>,                   "ids",   "relations", None, "feature", {"relation"}, "relation", FALSE, "osm")
     \* GET /api/0.6/node/#id/ways      GET /api/0.6/[node|way|relation]/#id/relations
  @@ "NodeWays"          :> E(<<"node", "#id", "ways">>,         "id",    "",          None, "feature", {"way"},      "way",      FALSE, "osm")
  @@ "NodeRelations"     :> E(<<"node", "#id", "relations">>,    "id",    "",          None, "feature", {"relation"}, "relation", FALSE, "osm")
  @@ "WayRelations"      :> E(<<"way", "#id", "relations">>,     "id",    "",          None, "feature", {"relation"}, "relation", FALSE, "osm")
  @@ "RelationRelations" :> E(<<"relation", "#id", "relations">>,"id",    "",          None, "feature", {"relation"}, "relation", FALSE, "osm")
     \* GET /api/0.6/[way|relation]/#id/full
  @@ "WayFull"           :> E(<<"way", "#id", "full">>,          "id",    "",          None, "feature", KindSet,      "way",      FALSE, "osm")
  @@ "RelationFull"      :> E(<<"relation", "#id", "full">>,     "id",    "",          None, "feature", KindSet,      "relation", FALSE, "osm")
     \* GET /api/0.6/map?bbox=left,bottom,right,top
  @@ "Map"               :> E(<<"map">>,                         "bbox",  "bbox",      None, "feature", KindSet,      "node",     FALSE, "osm")
     \* GET /api/0.6/changeset/#id[?include_discussion=true]     GET /api/0.6/changeset/#id/download
  @@ "Changeset"         :> E(<<"changeset", "#id">>,            "id",    "",          None, "none",    {"changeset"},"changeset",TRUE,  "osm")
  @@ "ChangesetWithDiscussion"
                         :> E(<<"changeset", "#id">>,            "id",    "",  << <<"include_discussion", "true">> >>,
                                                                                             "none",    {"changeset"},"changeset",TRUE,  "osm")
  @@ "ChangesetDownload" :> E(<<"changeset", "#id", "download">>,"id",    "",          None, "none",    KindSet,      "node",     FALSE, "osmChange")
     \* GET /api/0.6/notes/#id   GET /api/0.6/notes?bbox=l,b,r,t[&limit=][&closed=]   GET /api/0.6/notes/search?q=[&limit=][&closed=]
  @@ "Note"              :> E(<<"notes", "#id">>,                "id",    "",          None, "none",    {"note"},     "note",     TRUE,  "osm")
  @@ "Notes"             :> E(<<"notes">>,                       "bbox",  "bbox",      None, "notes",   {"note"},     "note",     FALSE, "osm")
  @@ "NotesSearch"       :> E(<<"notes", "search">>,             "q",     "q",         None, "notes",   {"note"},     "note",     FALSE, "osm")
     \* GET /api/0.6/user/#id
  @@ "User"              :> E(<<"user", "#id">>,                 "id",    "",          None, "none",    {"user"},     "user",     TRUE,  "osm")

EndpointNames == DOMAIN EP

\* Base URLs: configured string |-> the host and path prefix every request must go to.
\* "" = nothing configured: the package default, the public API  http://api.openstreetmap.org/api/0.6
Bases ==
     ""                                     :> [host |-> "api.openstreetmap.org", prefix |-> "/api/0.6"]
  @@ "http://api.example/api/0.6"           :> [host |-> "api.example",           prefix |-> "/api/0.6"]
  @@ "http://h2.example:8080/osm/api/0.6"   :> [host |-> "h2.example:8080",       prefix |-> "/osm/api/0.6"]
  @@ "http://dev.example/x/y/z"             :> [host |-> "dev.example",           prefix |-> "/x/y/z"]
     \* path prefixes that contain percent-escapes (an escaped slash, a space, a literal percent sign): the request
     \* path is the configured prefix VERBATIM followed by the documented path - nothing in the base is re-interpreted
  @@ "http://m1.example/mirror%2Feu/api/0.6"  :> [host |-> "m1.example",          prefix |-> "/mirror%2Feu/api/0.6"]
  @@ "http://m2.example/osm%20mirror/api/0.6" :> [host |-> "m2.example",          prefix |-> "/osm%20mirror/api/0.6"]
  @@ "http://m3.example:81/cache/100%25/api/0.6" :> [host |-> "m3.example:81",    prefix |-> "/cache/100%25/api/0.6"]

\* Options.  [k |-> kind, v |-> string value, n |-> integer value]
\*   at     : v = instant in UTC as it must appear in the query (osm.fyi extension documented by the package:
\*            at=2006-01-02T15:04:05Z), n = zone offset (seconds) in which the caller happens to hold that instant
\*   limit  : n, documented range 1..10000
\*   closed : n, any integer (0 = only open, -1 = all)
Opt(k, v, n) == [k |-> k, v |-> v, n |-> n]
OptValid(o)  == o.k = "limit" => (o.n >= 1 /\ o.n <= 10000)
OptsValid(c) == \A i \in DOMAIN c.opts : OptValid(c.opts[i])
OptParam(o)  == CASE o.k = "at"     -> <<"at", o.v>>
                  [] o.k = "limit"  -> <<"limit", ToString(o.n)>>
                  [] o.k = "closed" -> <<"closed", ToString(o.n)>>

(* ------------------------- expected request ----------------------------- *)
JoinWith(seq, sep) == IF seq = << >> THEN ""
                      ELSE FoldLeft(LAMBDA acc, s : acc \o sep \o s, Head(seq), Tail(seq))

Seg(c, s) == IF s = "#id" THEN c.id ELSE IF s = "#version" THEN c.ver ELSE s
ExpectedPath(c) == Bases[c.base].prefix \o "/" \o JoinWith([i \in DOMAIN EP[c.ep].path |-> Seg(c, EP[c.ep].path[i])], "/")
ExpectedHost(c) == Bases[c.base].host

\* a query parameter is [k, v, nums]; coordinates travel as numbers (nums, unit 1e-7 degree), everything else as text
P(k, v)  == [k |-> k, v |-> v, nums |-> << >>]
PN(k, n) == [k |-> k, v |-> "", nums |-> n]
ArgParams(c) == LET e == EP[c.ep] IN
   CASE e.arg = "ids"  -> << P(e.qkey, JoinWith(c.ids, ",")) >>
     [] e.arg = "bbox" -> << PN(e.qkey, c.bbox) >>
     [] e.arg = "q"    -> << P(e.qkey, c.q) >>
     [] OTHER          -> << >>
ExpectedQuery(c) ==
   ArgParams(c)
   \o [i \in DOMAIN EP[c.ep].fix |-> P(EP[c.ep].fix[i][1], EP[c.ep].fix[i][2])]
   \o [i \in DOMAIN c.opts |-> P(OptParam(c.opts[i])[1], OptParam(c.opts[i])[2])]

\* The documentation fixes bbox=left,bottom,right,top as numbers but no number of decimals.  A bound that is
\* not a whole micro-degree cannot be written with six decimals; the property is silent about how many decimals
\* must be sent, so for such calls only the presence of the bbox parameter is compared (BBoxExact = FALSE).
BBoxExact(c) == \A i \in DOMAIN c.bbox : c.bbox[i] % 10 = 0
\* normal form of an observed / expected parameter for comparison
NormP(c, p) == IF p.k = "bbox" /\ EP[c.ep].arg = "bbox"
               THEN [k |-> p.k, v |-> "", nums |-> IF BBoxExact(c) THEN p.nums ELSE << >>]
               ELSE [k |-> p.k, v |-> p.v, nums |-> << >>]
NormQ(c, q) == [i \in DOMAIN q |-> NormP(c, q[i])]

Count(seq, x) == Cardinality({i \in DOMAIN seq : seq[i] = x})
BagEq(s, t)   == /\ Len(s) = Len(t)
                 /\ \A i \in DOMAIN s : Count(s, s[i]) = Count(t, s[i])

(* ------------------------- response documents --------------------------- *)
El(t, id, sec) == [t |-> t, id |-> id, sec |-> sec]
\* what a call hands back from a well-formed 200 document: the elements of the kinds it returns,
\* grouped by section and kind in document order
Returned(ep, els) ==
  FlattenSeq([s \in DOMAIN Sections |->
     FlattenSeq([k \in DOMAIN Kinds |->
        SelectSeq(els, LAMBDA x : x.sec = Sections[s] /\ x.t = Kinds[k] /\ x.t \in EP[ep].ret)])])
OwnCount(ep, els) == Len(SelectSeq(els, LAMBDA x : x.t = EP[ep].own))

(* status |-> class of the typed error *)
Typed == 404 :> "NotFoundError" @@ 403 :> "ForbiddenError" @@ 410 :> "GoneError" @@ 414 :> "RequestURITooLongError"
StatusClass(st) == IF st \in DOMAIN Typed THEN Typed[st] ELSE "UnexpectedStatusCodeError"

(* ======================================================================== *)
(* 2. Model                                                                 *)
(* ======================================================================== *)
VARIABLES c,      \* the call: [ep, id, ver, ids, bbox, q, ctx, opts, base, lim, via]   (never changes)
          pc,     \* "wait" | "get" | "resp" | "ret" | "done"
          pend,   \* outcome the call is about to return
          log     \* observable events so far
vars == <<c, pc, pend, log>>

Fail(cls, code) == [cls |-> cls, code |-> code, notfound |-> (cls = "NotFoundError"), els |-> << >>]
Ok(els)         == [cls |-> "nil", code |-> 0, notfound |-> FALSE, els |-> els]
NoOutcome       == Fail("-", 0)

WaitEv(ok)  == [e |-> "wait", ok |-> ok]
GetEv(cc)   == [e |-> "get", method |-> "GET", host |-> ExpectedHost(cc), path |-> ExpectedPath(cc),
                query |-> NormQ(cc, ExpectedQuery(cc))]
RespEv(st, body) == [e |-> "resp", status |-> st, body |-> body]
RetEv(p)    == [e |-> "ret", cls |-> p.cls, code |-> p.code, notfound |-> p.notfound, els |-> p.els]

\* a body is [kind |-> "xml" | "garbage" | "empty" | "trunc", root, els, pad, flush]
Outcome(cc, st, body) ==
  IF st # 200 THEN Fail(StatusClass(st), IF st \in DOMAIN Typed THEN 0 ELSE st)
  ELSE IF body.kind # "xml" THEN Fail("other", 0)
  ELSE IF EP[cc.ep].one /\ OwnCount(cc.ep, body.els) # 1 THEN Fail("other", 0)
  ELSE Ok(Returned(cc.ep, body.els))

\* the call starts: options are validated while the URL is built; then the limiter, if one is set
BeginPc(cc)   == IF ~OptsValid(cc) THEN "ret" ELSE IF cc.lim = "set" THEN "wait" ELSE "get"
BeginPend(cc) == IF ~OptsValid(cc) THEN Fail("other", 0) ELSE NoOutcome

Wait(ok) == /\ pc = "wait"
            /\ log' = Append(log, WaitEv(ok))
            /\ IF ok THEN pc' = "get" /\ pend' = pend
                     ELSE pc' = "ret" /\ pend' = Fail("limiter", 0)
            /\ UNCHANGED c
Get == /\ pc = "get"
       /\ log' = Append(log, GetEv(c))
       /\ pc' = "resp"
       /\ UNCHANGED <<c, pend>>
Respond(st, body) == /\ pc = "resp"
                     /\ log' = Append(log, RespEv(st, body))
                     /\ pend' = Outcome(c, st, body)
                     /\ pc' = "ret"
                     /\ UNCHANGED c
Return == /\ pc = "ret"
          /\ log' = Append(log, RetEv(pend))
          /\ pc' = "done"
          /\ UNCHANGED <<c, pend>>

(* ======================================================================== *)
(* 3. Judges: property C20, clause by clause, over (call, event log)        *)
(* ======================================================================== *)
Sel(lg, e)  == SelectSeq(lg, LAMBDA x : x.e = e)
Gets(lg)    == Sel(lg, "get")
Resps(lg)   == Sel(lg, "resp")
Rets(lg)    == Sel(lg, "ret")
Complete(lg)  == Len(lg) > 0 /\ lg[Len(lg)].e = "ret" /\ Len(Rets(lg)) = 1
LimFailed(lg) == \E i \in DOMAIN lg : lg[i].e = "wait" /\ ~lg[i].ok
Answered(lg)  == Len(Resps(lg)) > 0
LastResp(lg)  == Resps(lg)[Len(Resps(lg))]
TheRet(lg)    == lg[Len(lg)]

\* "issues exactly one GET": never more than one; exactly one (a GET) once the call has returned, unless the
\* limiter refused (then none, see WaitBeforeGet)
J_OneGet(cc, lg) ==
  /\ Len(Gets(lg)) <= 1
  /\ \A i \in DOMAIN lg : lg[i].e = "get" => lg[i].method = "GET"
  /\ (Complete(lg) /\ ~LimFailed(lg)) => Len(Gets(lg)) = 1

\* "after waiting on the rate limiter when one is set": every GET is preceded by a wait on the limiter, and every
\* wait before it let the call pass (a limiter that refuses has not been waited out: no GET then)
J_WaitBeforeGet(cc, lg) ==
  cc.lim = "set" =>
    \A i \in DOMAIN lg : lg[i].e = "get" =>
       /\ \E j \in 1 .. i - 1 : lg[j].e = "wait"
       /\ \A j \in 1 .. i - 1 : lg[j].e = "wait" => lg[j].ok

\* "to the documented API v0.6 path for its arguments and options under the configured base URL"
J_PathOK(cc, lg) ==
  \A i \in DOMAIN lg : lg[i].e = "get" =>
     /\ lg[i].host = ExpectedHost(cc)
     /\ lg[i].path = ExpectedPath(cc)
     /\ BagEq(lg[i].query, NormQ(cc, ExpectedQuery(cc)))

\* "404, 403, 410, 414 and any other non-200 status are mapped to their distinct typed errors, with the
\*  not-found test true only for 404, instead of returning partial data"
J_StatusMap(cc, lg) ==
  Complete(lg) =>
    LET r == TheRet(lg) IN
    /\ (Answered(lg) /\ LastResp(lg).status # 200) =>
          /\ r.cls = StatusClass(LastResp(lg).status)
          /\ r.els = << >>
    /\ r.notfound <=> (Answered(lg) /\ LastResp(lg).status = 404)

\* "single-element calls reject responses that do not contain exactly one element"
J_ExactlyOne(cc, lg) ==
  (Complete(lg) /\ Answered(lg) /\ EP[cc.ep].one) =>
    LET r == TheRet(lg)  rs == LastResp(lg) IN
    (rs.status = 200 /\ rs.body.kind = "xml" /\ OwnCount(cc.ep, rs.body.els) # 1) =>
        (r.cls \notin {"nil", "panic"} /\ r.els = << >>)

\* "returns exactly the elements contained in the server's response"
\* (the property is silent about 200 responses whose document is not well-formed)
J_ReturnsAll(cc, lg) ==
  (Complete(lg) /\ Answered(lg)) =>
    LET r == TheRet(lg)  rs == LastResp(lg) IN
    (rs.status = 200 /\ rs.body.kind = "xml" /\ (EP[cc.ep].one => OwnCount(cc.ep, rs.body.els) = 1)) =>
        LET want == Returned(cc.ep, rs.body.els) IN (r.cls = "nil" /\ BagEq(r.els, want))

JudgeNames == <<"OneGet", "WaitBeforeGet", "PathOK", "StatusMap", "ExactlyOne", "ReturnsAll">>
JudgeVal(cc, lg) == <<J_OneGet(cc, lg), J_WaitBeforeGet(cc, lg), J_PathOK(cc, lg),
                      J_StatusMap(cc, lg), J_ExactlyOne(cc, lg), J_ReturnsAll(cc, lg)>>
\* The property speaks about calls whose options are within their documented ranges.
Failing(cc, lg) == IF ~OptsValid(cc) THEN {} ELSE {JudgeNames[i] : i \in {j \in DOMAIN JudgeNames : ~JudgeVal(cc, lg)[j]}}
Judge(cc, lg)   == Failing(cc, lg) = {}

(* ======================================================================== *)
(* Input space                                                              *)
(* ======================================================================== *)
Ids      == IF Wide THEN {"1", "77", "2147483648", "1099511627776", "9223372036854775807"}
                    ELSE {"1", "2147483648", "1099511627776"}
ListIds  == IF Wide THEN {"1", "77", "1099511627776"} ELSE {"1", "1099511627776"}
Vers     == IF Wide THEN {"1", "17", "2147483647"} ELSE {"1", "17"}
IdLists  == BoundedSeq(ListIds, 2) \cup (IF Wide THEN {<<"1", "1", "1">>, <<"77", "1099511627776", "1">>} ELSE {}) \cup {<<"1", "77", "1">>, <<"2147483648", "1", "9223372036854775807">>}
\* unit 1e-7 degree: left, bottom, right, top
BBoxes   == {<<10000000, 20000000, 30000000, 40000000>>, <<-1225000000, 374000000, -1223500000, 378123450>>,
             <<-1800000000, -900000000, 1800000000, 900000000>>}
            \cup (IF Wide THEN {<<0, 0, 10, 10>>, <<1234567, -1234567, 1234569, -1234565>>, <<-5, -5, 5, 5>>} ELSE {})
Queries  == {"asdf", "fix me", "a&b=c"} \cup (IF Wide THEN {"", "100%+x/y?z#w", "q=q"} ELSE {})

At1 == Opt("at", "2016-01-01T00:00:00Z", 0)
At2 == Opt("at", "2012-09-12T23:59:59Z", 19800)
At3 == Opt("at", "2038-01-19T03:14:08Z", -28800)
FeatureOpts == {<< >>, <<At1>>, <<At2>>} \cup (IF Wide THEN {<<At3>>, <<At1, At2>>} ELSE {})
NotesOpts == {<< >>, <<Opt("limit", "", 1)>>, <<Opt("closed", "", -1)>>, <<Opt("limit", "", 10000), Opt("closed", "", 0)>>,
              <<Opt("limit", "", 0)>>, <<Opt("closed", "", 4), Opt("limit", "", 10001)>>}
             \cup (IF Wide THEN {<<Opt("closed", "", 7), Opt("limit", "", 50)>>, <<Opt("closed", "", 0)>>,
                                 <<Opt("limit", "", 3), Opt("limit", "", 4)>>, <<Opt("limit", "", -1)>>} ELSE {})
OptSeqs(ep) == CASE EP[ep].opt = "feature" -> FeatureOpts [] EP[ep].opt = "notes" -> NotesOpts [] OTHER -> {<< >>}

BaseSet == IF Wide THEN DOMAIN Bases ELSE DOMAIN Bases \ {"http://dev.example/x/y/z"}
\* via: "ds" = method on a Datasource with its own client, "dsnil" = Datasource without a client (falls back to the
\* default client), "pkg" = package-level function (delegates to DefaultDatasource)
Vias == {"ds", "dsnil", "pkg"}
\* ctx: the context the caller passes: "bg" = no deadline (context.Background), "deadline" = the caller set one
\* (far away; it never expires in the explored space).  The documented behaviour does not depend on it.
Ctxs == {"bg", "deadline"}
Lims == {"none", "set"}

Args(ep) ==
  LET z == [id |-> "", ver |-> "", ids |-> << >>, bbox |-> << >>, q |-> ""] IN
  CASE EP[ep].arg = "id"    -> {[z EXCEPT !.id = i] : i \in Ids}
    [] EP[ep].arg = "idver" -> {[z EXCEPT !.id = i, !.ver = v] : i \in Ids, v \in Vers}
    [] EP[ep].arg = "ids"   -> {[z EXCEPT !.ids = l] : l \in IdLists}
    [] EP[ep].arg = "bbox"  -> {[z EXCEPT !.bbox = b] : b \in BBoxes}
    [] EP[ep].arg = "q"     -> {[z EXCEPT !.q = s] : s \in Queries}

Call(ep, a, o, b, l, v, x) == [ep |-> ep, id |-> a.id, ver |-> a.ver, ids |-> a.ids, bbox |-> a.bbox, q |-> a.q, ctx |-> x,
                            opts |-> o, base |-> b, lim |-> l, via |-> v]
\* endpoint x arguments x options as one filtered product (TLC evaluates UNION over many large sets with a
\* quadratic number of comparisons; a single set constructor is sorted once)
ArgKinds  == {"id", "idver", "ids", "bbox", "q"}
OptKinds  == {"feature", "notes", "none"}
EpOf(ak, ok) == {ep \in EndpointNames : EP[ep].arg = ak /\ EP[ep].opt = ok}
RepArg(ak)   == Args(CHOOSE ep \in EndpointNames : EP[ep].arg = ak)
RepOpt(ok)   == OptSeqs(CHOOSE ep \in EndpointNames : EP[ep].opt = ok)
EAO == UNION {{<<ep, a, o>> : ep \in EpOf(ak, ok), a \in RepArg(ak), o \in RepOpt(ok)} : ak \in ArgKinds, ok \in OptKinds}
CallsVia(V, X) == {Call(t[1], t[2], t[3], b, l, v, x) : t \in EAO, b \in BaseSet, l \in Lims, v \in V, x \in X}
\* The whole call space is CallsVia(Vias, Ctxs); it is sampled by OsmApiGen and never enumerated as one set (a
\* zero-argument definition of it would be evaluated at every TLC start, Judge and Trace runs included).

\* environment: statuses and response documents
Statuses == {200, 404, 403, 410, 414, 500, 301, 204, 400, 401, 429, 503} \cup (IF Wide THEN {201, 302, 304, 405, 409, 412, 418, 502, 509} ELSE {})
Shapes   == <<"one", "none", "two", "mixedone", "mixedtwo", "three", "garbage", "empty", "trunc">>
Others(k) == SelectSeq(<< El("node", "201", ""), El("way", "301", ""), El("relation", "401", ""),
                          El("changeset", "501", ""), El("note", "601", ""), El("user", "701", "") >>, LAMBDA x : x.t # k)
\* How the server delivers the document: pad = kilobytes of XML comments in front of the elements (a response of
\* realistic size; the abstract element list stays small), flush = written in two pieces with a pause in between
\* (a server that streams).  Neither changes what the document contains.
Deliv(pad, flush) == [pad |-> pad, flush |-> flush]
Plain      == Deliv(0, FALSE)
Deliveries == {Plain, Deliv(256, FALSE), Deliv(0, TRUE), Deliv(256, TRUE)}
BodyBase(ep, shape) ==
  LET k == EP[ep].own  root == EP[ep].root IN
  IF root = "osm" THEN
     CASE shape = "none"     -> [kind |-> "xml", root |-> root, els |-> << >>]
       [] shape = "one"      -> [kind |-> "xml", root |-> root, els |-> << El(k, "101", "") >>]
       [] shape = "two"      -> [kind |-> "xml", root |-> root, els |-> << El(k, "102", ""), El(k, "101", "") >>]
       [] shape = "three"    -> [kind |-> "xml", root |-> root, els |-> << El(k, "101", ""), El(k, "4611686018427387905", ""), El(k, "101", "") >>]
       [] shape = "mixedone" -> [kind |-> "xml", root |-> root, els |-> SubSeq(Others(k), 1, 2) \o << El(k, "101", "") >> \o SubSeq(Others(k), 3, 5)]
       [] shape = "mixedtwo" -> [kind |-> "xml", root |-> root, els |-> << El(k, "101", "") >> \o Others(k) \o << El(k, "2147483649", "") >>]
       [] shape = "garbage"  -> [kind |-> "garbage", root |-> root, els |-> << >>]
       [] shape = "empty"    -> [kind |-> "empty", root |-> root, els |-> << >>]
       \* the document is cut inside its last element: the elements before it arrive complete
       [] shape = "trunc"    -> [kind |-> "trunc", root |-> root, els |-> << El(k, "101", ""), El(k, "102", ""), El(k, "103", "") >>]
  ELSE
     CASE shape = "none"     -> [kind |-> "xml", root |-> root, els |-> << >>]
       [] shape = "one"      -> [kind |-> "xml", root |-> root, els |-> << El("node", "101", "create") >>]
       [] shape = "two"      -> [kind |-> "xml", root |-> root, els |-> << El("node", "101", "create"), El("way", "301", "modify") >>]
       [] shape = "three"    -> [kind |-> "xml", root |-> root, els |-> << El("way", "301", "modify"), El("way", "302", "modify"), El("relation", "4611686018427387905", "delete") >>]
       [] shape = "mixedone" -> [kind |-> "xml", root |-> root, els |-> << El("node", "101", "create"), El("node", "102", "modify"), El("node", "103", "delete") >>]
       [] shape = "mixedtwo" -> [kind |-> "xml", root |-> root, els |-> << El("node", "101", "create"), El("way", "301", "create"), El("relation", "401", "create"),
                                                                        El("node", "102", "delete"), El("way", "302", "delete") >>]
       [] shape = "garbage"  -> [kind |-> "garbage", root |-> root, els |-> << >>]
       [] shape = "empty"    -> [kind |-> "empty", root |-> root, els |-> << >>]
       [] shape = "trunc"    -> [kind |-> "trunc", root |-> root, els |-> << El("node", "101", "create"), El("way", "301", "modify"), El("node", "103", "delete") >>]
Body(ep, shape, d) == d @@ BodyBase(ep, shape)

(* ------------------------------ the machine ----------------------------- *)
\* The Model does not look at `via` (how the caller reaches the Datasource), so the design-level run fixes it.
\* Narrow (quick) run: a star-shaped slice - at most one of {options, base URL, limiter} away from its default -
\* and a slice of the environment.  Wide run: the star for every base URL plus the full product of arguments x
\* options x limiter for two of the seven base URLs (the Model's treatment of the base is independent of the rest).
Star(x)    == \/ (x.base = "" /\ x.lim = "none")
              \/ (x.opts = << >> /\ x.lim = "none")
              \/ (x.opts = << >> /\ x.base = "")
MCCalls    == IF Wide THEN {x \in CallsVia({"ds"}, {"bg"}) : Star(x) \/ x.base \in {"", "http://m1.example/mirror%2Feu/api/0.6"}}
                      ELSE {x \in CallsVia({"ds"}, {"bg"}) : Star(x)}
\* Environment of the design-level run.  The Model looks at the document only when the status is 200, so other
\* statuses are paired with two documents (with and without elements) instead of all of them.
AllShapes == {Shapes[i] : i \in DOMAIN Shapes}
\* Likewise it never looks at how the document is delivered: the non-plain deliveries are paired with three documents.
MCEnv == IF Wide THEN {<<200, sh, Plain>> : sh \in AllShapes}
                      \cup {<<200, sh, d>> : sh \in {"one", "three", "trunc"}, d \in Deliveries \ {Plain}}
                      \cup {<<st, sh, Plain>> : st \in Statuses \ {200}, sh \in {"none", "mixedtwo"}}
                      \cup {<<404, "one", Deliv(256, TRUE)>>}
                 ELSE {<<200, sh, Plain>> : sh \in {"one", "none", "two", "mixedone", "garbage"}}
                      \cup {<<200, "one", Deliv(256, FALSE)>>, <<200, "two", Deliv(0, TRUE)>>}
                      \cup {<<st, "one", Plain>> : st \in {404, 403, 410, 414, 500, 204}}
Init == /\ c \in MCCalls
        /\ pc = BeginPc(c) /\ pend = BeginPend(c) /\ log = << >>
Next == \/ \E ok \in BOOLEAN : Wait(ok)
        \/ Get
        \/ \E env \in MCEnv : Respond(env[1], Body(c.ep, env[2], env[3]))
        \/ Return
Spec     == Init /\ [][Next]_vars
FairSpec == Spec /\ WF_vars(Next)

(* ------------------------------ invariants ------------------------------ *)
Classes == {"nil", "NotFoundError", "ForbiddenError", "GoneError", "RequestURITooLongError",
            "UnexpectedStatusCodeError", "limiter", "other"}
TypeOK == /\ pc \in {"wait", "get", "resp", "ret", "done"}
          /\ (pc \in {"ret", "done"}) => pend.cls \in Classes
          /\ Len(log) <= 4
JudgeInv     == Judge(c, log)                         \* every clause, at every state (clauses guard themselves with Complete)
\* log only grows and every clause quantifies over the events in it, so for the wide run it is enough to evaluate
\* the expensive clauses once per behaviour, at its end (every behaviour ends: Terminates, checked in the narrow run)
JudgeDoneInv == (pc = "done") => Judge(c, log)
PrefixInv    == OptsValid(c) => (J_OneGet(c, log) /\ J_WaitBeforeGet(c, log))
DoneComplete == (pc = "done") <=> Complete(log)
\* the five error classes the property lists are pairwise distinct and distinct from success
DistinctInv  == \A s, t \in Statuses : (StatusClass(s) = StatusClass(t)) <=> (s = t \/ (s \notin DOMAIN Typed /\ t \notin DOMAIN Typed))
\* design-level facts worth knowing: options out of range and a refusing limiter never reach the network
NoNetInv     == (pc = "done" /\ (~OptsValid(c) \/ LimFailed(log))) => Gets(log) = << >>
\* every step appends one event and a call has at most four (TypeOK), so a call that can always take a step
\* until it is done terminates; Terminates is the same fact as a temporal property (under FairSpec)
Progress     == (pc # "done") => ENABLED Next
Terminates   == <>(pc = "done")

\* Model only (the property does not say it; a mismatch is a DIVERGENCE, not a VIOLATION): a call that returns an
\* error returns the zero value next to it (nil pointer / nil slice) - in particular nothing of a 200 document
\* that turned out to be cut after some complete elements, and no empty placeholder document with a typed error.
ZeroOnError(cls, zero) == (cls # "nil") => zero

(* ------------- binding: what the recorder writes for a returned error ---- *)
\* concrete Go type of the returned error |-> abstract class (the recorder prints %T verbatim)
GoTyped ==    "*osmapi.NotFoundError"             :> "NotFoundError"
           @@ "*osmapi.ForbiddenError"            :> "ForbiddenError"
           @@ "*osmapi.GoneError"                 :> "GoneError"
           @@ "*osmapi.RequestURITooLongError"    :> "RequestURITooLongError"
           @@ "*osmapi.UnexpectedStatusCodeError" :> "UnexpectedStatusCodeError"
ClassOf(ev) == IF ev.errtype = "" THEN "nil"
               ELSE IF ev.errtype = "panic" THEN "panic"
               ELSE IF ev.limerr THEN "limiter"
               ELSE IF ev.errtype \in DOMAIN GoTyped THEN GoTyped[ev.errtype]
               ELSE "other"
CallOf(k) == [ep |-> k.ep, id |-> k.id, ver |-> k.ver, ids |-> k.ids, bbox |-> k.bbox, q |-> k.q, ctx |-> k.ctx,
              opts |-> k.opts, base |-> k.base, lim |-> k.lim, via |-> k.via]
\* recorded event -> event in the vocabulary of the Model / the Judges
ObsEv(cc, ev) ==
  CASE ev.e = "wait" -> [e |-> "wait", ok |-> ev.ok]
    [] ev.e = "get"  -> [e |-> "get", method |-> ev.method, host |-> ev.host, path |-> ev.path, query |-> NormQ(cc, ev.query)]
    [] ev.e = "resp" -> [e |-> "resp", status |-> ev.status, body |-> ev.body]
    [] ev.e = "ret"  -> [e |-> "ret", cls |-> ClassOf(ev), code |-> ev.code, notfound |-> ev.notfound, els |-> ev.els]
ObsLog(cc, evs) == [i \in DOMAIN evs |-> ObsEv(cc, evs[i])]
=============================================================================
