CONSTANT Configs = {}
SPECIFICATION TraceSpec
INVARIANTS TypeOK OrderInv CompleteInv OffsetInv ReadAheadInv ErrPrecedenceInv
CONSTRAINT TraceConstraint
POSTCONDITION TraceAccepted
CHECK_DEADLOCK FALSE
