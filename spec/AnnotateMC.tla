----------------------------- MODULE AnnotateMC -----------------------------
(* Model-checking root for Annotate.tla: Model |= Judges within the small     *)
(* constants of the Annotate_mc_*.cfg files.                                  *)
EXTENDS Annotate, AnnotateSets
=============================================================================
