\* case generation, quick tier (same constants as AnnotateChange_quick.cfg)
CONSTANTS
  HMax = 4
  SingleKinds = {"node", "way", "relation"}
  BothVis = FALSE
  PairVers = {2, 3}
  NRandom = 1500
  BuildMax = 0
  BuildIds = {}
  WithFamilies = TRUE
  StaticInit = TRUE
INIT GInit
NEXT GNext
CHECK_DEADLOCK FALSE
