\* design level, thorough, relations: <= 3 members (way, node, way), every stored list of <= 3 updates
\* with/without the reverse flag on way members, times 1..3, every t1 <= t2 in 0..3
CONSTANTS
  MaxN = 3
  MaxL = 3
  MaxT = 3
  Kinds = {"relation"}
  UnannChoices = {0}
  LocKinds = {"n"}
  BreakAtLate = FALSE
SPECIFICATION Spec
INVARIANTS Exact1 Exact2 Pending1 Pending2 IndexErr1 IndexErr2 Compose FoldsAgree UpToSplit
CHECK_DEADLOCK FALSE
