CONSTANT Bug = "none"
CONSTANT Full = FALSE
CONSTANT Seed = 1
CONSTANT Fams = {"densepair", "densegroups", "spaced", "waypair", "relpair", "bodies", "params", "shapes"}
SPECIFICATION Spec
INVARIANT NoInherit
CHECK_DEADLOCK FALSE
