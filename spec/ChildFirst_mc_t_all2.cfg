CONSTANTS
  N = 2
  MaxMem = 2
  MaxReq = 2
  Family = "flat"
  FlagFamily = "all"
  WithBad = TRUE
  CanonicalReqs = TRUE
  VersionSets <- MCVersions
  ReqLists <- MCReqs
  BadSets <- MCBad
  FlagSets <- MCFlags
SPECIFICATION Spec
INVARIANTS TypeOK EmittedOnce OnlyWithHistory ChildrenFirst AllRequestedEmitted StopEndsIteration EmitsPrefixOfRunOut RanToEndEmitsRunOut CompletedAtEnd VisitedIsEmittedOrSending
CHECK_DEADLOCK FALSE
