CONSTANT Big = TRUE
INIT JInitC
NEXT Next
INVARIANT JsonWriterShape
INVARIANT StripLaws
INVARIANT TagOrderFree
CHECK_DEADLOCK FALSE
