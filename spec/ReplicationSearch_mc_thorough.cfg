\* Model |= Judges: the search as it should be (no deviations), every directory of the families, every query time
CONSTANTS
  MaxSeq = 12
  Offsets = {7, 998, 99997, 999997, 2007989, 6099990}
  OffN = 6
  LongOffsets = {0, 1, 999997}
  LongSizes = {40, 300, 1000}
  LongRuns <- RunsThorough
  FullQueries = 301
  PauseSizes = {300, 1000, 2000}
  DevSets <- OnlyFixed
SPECIFICATION MCFairSpec
INVARIANTS TypeOK ResultInv PlanetLayoutOK RequestBoundInv BracketInv KFCoverInv RunAgrees
PROPERTY Terminates
CHECK_DEADLOCK FALSE
