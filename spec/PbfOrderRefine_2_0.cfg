CONSTANTS
  RN = 2
  RCap = 0
  RBlocks = 5
  Configs <- RConfigs
INIT Init
NEXT Next
VIEW RView
INVARIANTS TypeOK OrderInv CoreIndInv
PROPERTIES RefinesCore
CHECK_DEADLOCK FALSE
