CONSTANT Wide = TRUE
INIT GInit
NEXT GNext
CHECK_DEADLOCK FALSE
