CONSTANTS
  Plan <- QuickPlan
  MaxN = 1
  MaxL = 0
  MaxT = 1
  Kinds = {"way"}
  UnannChoices = {0}
  BreakAtLate = FALSE
INIT Init
NEXT Next
CHECK_DEADLOCK FALSE
