CONSTANTS
  Plan <- QuickPlan
  MaxN = 1
  MaxL = 0
  MaxT = 1
  Kinds = {"way"}
  UnannChoices = {0}
  LocKinds = {"n"}
  BreakAtLate = FALSE
INIT Init
NEXT Next
CHECK_DEADLOCK FALSE
