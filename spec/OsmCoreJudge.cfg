CONSTANTS
  Ids = {1, 2, 3}
  Vers = {1, 2, 3}
  Kinds = {}
  Targets = {}
  VisVals = {}
  Families = {}
  MaxOps = 0
  TagKeys = {}
  TagVals = {}
  RefKinds = {}
  RefVers = {}
  Coords = {}
INIT JInit
NEXT JNext
CHECK_DEADLOCK FALSE
