--------------------------- MODULE MultipolygonDocs ---------------------------
(* C16 case generation for DOCUMENTS: two or three multipolygon / boundary relations in one osm.OSM that share member *)
(* ways.  The statement is per relation, so every relation of the document has to come out exactly as on its own:    *)
(* every relation keeps its own, independent ground truth g and is judged by the unchanged Judge.                    *)
(*                                                                                                                   *)
(*   adjacent areas   A (west) and B (east) share a border path of s edges.  Ring 1 of A has the border on its       *)
(*                    vertices 1..s+1 (running north, counter-clockwise around A), ring 1 of B has the same points   *)
(*                    on its vertices 1..s+1 in the opposite order (running south, counter-clockwise around B):      *)
(*                    A's vertex i  =  B's vertex s+2-i.  The border is one way, or cut into two ways, stored in one  *)
(*                    direction and used by both relations: with the grain in one ring, against it in the other.     *)
(*   island           A has a hole (ring 2); the hole ring is the outer ring (ring 1) of relation C, vertex by       *)
(*                    vertex; the ways of that ring are inner members of A and outer members of C.                   *)
(*   both             A, B and C in one document.                                                                    *)
(*                                                                                                                   *)
(* Enumerated: direction of every way, cut of the non-shared remainder into 1..mr ways, of the border into 1..mb     *)
(* ways, of the hole ring into 1..mh ways, every member order of every relation (so the shared way *)
(* is listed first / last / in between), every order of the relations in the document.  One case is written per      *)
(* (document, observed relation k): the record is relation k's ordinary case plus the field `doc`.                   *)
EXTENDS MultipolygonGen

CONSTANT DocSpecs     \* set of document families, see DSpec
\* name; vertices of A's outer, of A's hole (0 = none), of B's outer (0 = no B); border edges; relation C present;
\* maximal number of ways the non-shared remainder / the border / the hole ring is cut into
DSpec(name, nA, hA, nB, s, island, mr, mb, mh) ==
  [name |-> name, nA |-> nA, hA |-> hA, nB |-> nB, s |-> s, island |-> island, mr |-> mr, mb |-> mb, mh |-> mh]
DS_Quick == {DSpec("adj33", 3, 0, 3, 1, FALSE, 1, 1, 1), DSpec("adj44", 4, 0, 4, 2, FALSE, 1, 2, 1),
             DSpec("isl33", 3, 3, 0, 0, TRUE, 1, 1, 2), DSpec("both333", 3, 3, 3, 1, TRUE, 1, 1, 1)}
DS_Thorough == {DSpec("adj33", 3, 0, 3, 1, FALSE, 2, 1, 1), DSpec("adj44", 4, 0, 4, 2, FALSE, 1, 2, 1),
                DSpec("adj54", 5, 0, 4, 2, FALSE, 2, 1, 1), DSpec("adj43h", 4, 3, 3, 1, FALSE, 1, 1, 1),
                DSpec("isl33", 3, 3, 0, 0, TRUE, 1, 1, 2), DSpec("isl44", 4, 4, 0, 0, TRUE, 1, 1, 2),
                DSpec("both333", 3, 3, 3, 1, TRUE, 1, 1, 1), DSpec("both434", 4, 3, 4, 2, TRUE, 1, 1, 1)}

MinOfSet(S) == CHOOSE x \in S : \A y \in S : x <= y
NextOff(C, a, e) == IF \E d \in C : d > a THEN MinOfSet({d \in C : d > a}) ELSE e

\* all ways of cutting the path of e edges that starts at vertex `from` of ring r into at most maxp ways and
\* reversing any subset of them: a set of sets of ways
PathVariants(gg, r, from, e, maxp) ==
  UNION {{ {[ring |-> r, nodes |-> LET p == Arc(gg, r, ((from - 1 + a) % gg[r].n) + 1, NextOff(C, a, e) - a)
                                   IN IF a \in D THEN Reverse(p) ELSE p] : a \in C \cup {0}}
           : D \in SUBSET (C \cup {0})}
         : C \in {C \in SUBSET (1 .. e - 1) : Cardinality(C) < maxp}}

Ring1(n, h) == IF h > 0 THEN <<R(n, 0), R(h, 1)>> ELSE <<R(n, 0)>>
MapWays(P, f(_)) == {[ring |-> 1, nodes |-> [j \in 1 .. Len(p.nodes) |-> f(p.nodes[j])]] : p \in P}

RelRec(gg, ms) == [g |-> gg, members |-> ms, masks |-> MasksOf(ms),
                   rtype |-> IF Idx(ms[Len(ms)].nodes[1]) % 2 = 1 THEN "multipolygon" ELSE "boundary"]
MemberLists2(gg, P) == {[i \in 1 .. Len(q) |-> MemberOf(gg, q[i])] : q \in Perms(P)}

\* the documents of one spec: sequences of relation records <<A, B?, C?>>
DocsOf(sp) ==
  LET gA == Ring1(sp.nA, sp.hA)
      gB == <<R(sp.nB, 0)>>
      gC == <<R(sp.hA, 0)>>
      s  == sp.s
      borderVs == IF s > 0 THEN PathVariants(gA, 1, 1, s, sp.mb) ELSE {{}}
      restAVs  == PathVariants(gA, 1, s + 1, sp.nA - s, sp.mr)
      holeVs   == IF sp.hA > 0 THEN PathVariants(gA, 2, 1, sp.hA, sp.mh) ELSE {{}}
      restBVs  == IF sp.nB > 0 THEN PathVariants(gB, 1, s + 1, sp.nB - s, sp.mr) ELSE {{}}
      toB(v) == Sym(1, s + 2 - Idx(v))
      toC(v) == Sym(1, Idx(v))
  IN UNION {UNION {UNION {UNION {
       LET PA == bo \cup ra \cup ho
           PB == MapWays(bo, toB) \cup rb
           PC == MapWays(ho, toC)
       IN {<<RelRec(gA, ma)>> \o (IF sp.nB > 0 THEN <<RelRec(gB, mb)>> ELSE << >>) \o (IF sp.island THEN <<RelRec(gC, mc)>> ELSE << >>)
             : ma \in MemberLists2(gA, PA),
               mb \in (IF sp.nB > 0 THEN MemberLists2(gB, PB) ELSE {<< >>}),
               mc \in (IF sp.island THEN MemberLists2(gC, PC) ELSE {<< >>})}
       : rb \in restBVs} : ho \in holeVs} : ra \in restAVs} : bo \in borderVs}

Kind(sp) == IF sp.nB > 0 /\ sp.island THEN "both" ELSE IF sp.island THEN "island" ELSE "adjacent"

\* one case per (document, relation order, observed relation k)
DocCases ==
  UNION {UNION {
     LET K == Len(rels) IN
     {[g |-> rels[k].g, members |-> rels[k].members, masks |-> rels[k].masks, rtype |-> rels[k].rtype,
       norder |-> (K + k + Len(rels[1].members)) % 3, place |-> "", vers |-> << >>, ids |-> [mode |-> "", z |-> 0],
       doc |-> [spec |-> sp.name, kind |-> Kind(sp), s |-> sp.s, k |-> k, rels |-> rels, relorder |-> ord]]
        : k \in 1 .. K, ord \in Perms(1 .. K)}
     : rels \in DocsOf(sp)} : sp \in DocSpecs}

ASSUME LET D == DocCases IN (\A c \in D : Write(c)) /\ PrintT(<<"NDOCCASES", Cardinality(D)>>)

DInit == g = << >> /\ pat = "" /\ cutr = 0 /\ cuts = {} /\ pool = {} /\ members = << >> /\ run = NoRun /\ st = A0
DNext == UNCHANGED vars
=============================================================================
