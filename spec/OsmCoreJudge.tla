---------------------------- MODULE OsmCoreJudge ----------------------------
(* Judge for X01.  Every line of IOEnv.REC is one executed call sequence:      *)
(*   [case |-> [ops, ...], got |-> <<step_0, step_1, ...>>]                    *)
(*   step_0 = [e |-> "reset", st, q, p],  step_i = [e |-> "op", op, st, q]     *)
(* (a step [e |-> "crash"] ends a sequence in which the library panicked).     *)
(* Only the documented promises (J_* of OsmCore) are evaluated, on recorded    *)
(* values only; the Model's actions are not consulted here.                    *)
EXTENDS OsmCore, IOUtils, Json
Lines == ndJsonDeserialize(IOEnv.REC)

InitProj == [ heap |-> << >>, doc |-> EmptyOSM, create |-> NilOSM, modify |-> NilOSM, delete |-> NilOSM,
              ds |-> [nil |-> TRUE, node |-> << >>, way |-> << >>, relation |-> << >>], tags |-> << >>, refs |-> << >> ]
\* every pointer found in a container or history is one of the objects created by the harness
SerialsOf(st) == UNION {ToSet(SlicesOf(st[c])) \cup (IF st[c].bounds = 0 THEN {} ELSE {st[c].bounds}) : c \in Containers}
                 \cup UNION {UNION {ToSet(st.ds[k][j][2]) : j \in 1 .. Len(st.ds[k])} : k \in ElemKindSet}
KnownObjects(st) == SerialsOf(st) \subseteq 1 .. Len(st.heap)

Clauses(g, i) ==
  IF g[i].e = "crash" THEN {"crash"}
  ELSE IF ~KnownObjects(g[i].st) THEN {"unknown-object"}
  ELSE (IF i = 1 THEN (IF g[1].e = "reset" /\ g[1].st = InitProj THEN {} ELSE {"init"}) \cup (IF J_Pure(g[1].p) THEN {} ELSE {"J_Pure"})
        ELSE IF J_Step(g[i - 1].st, g[i].op, g[i].st) THEN {} ELSE {"J_Step:" \o g[i].op.op})
       \cup (IF J_QDoc(g[i].st, g[i].q) THEN {} ELSE {"J_QDoc"})
       \cup (IF J_QHist(g[i].st, g[i].q) THEN {} ELSE {"J_QHist"})
       \cup (IF J_QTags(g[i].st, g[i].q) THEN {} ELSE {"J_QTags"})
       \cup (IF J_QRefs(g[i].st, g[i].q) THEN {} ELSE {"J_QRefs"})
\* the harness executed the calls of the case, in order
Executed(ln) == LET g == ln.got IN
  /\ Len(g) >= 1
  /\ (g[Len(g)].e # "crash" => Len(g) = Len(ln.case.ops) + 1)
  /\ \A i \in 2 .. Len(g) : g[i].e = "op" => g[i].op = ln.case.ops[i - 1]
FirstBad(ln) == LET g == ln.got  B == {i \in 1 .. Len(g) : Clauses(g, i) # {}} IN
                IF B = {} THEN 0 ELSE CHOOSE i \in B : \A j \in B : i <= j
LineOK(ln) == Executed(ln) /\ FirstBad(ln) = 0
Why(ln) == IF ~Executed(ln) THEN <<"not-executed", 0, {}>>
           ELSE <<"step", FirstBad(ln) - 1, Clauses(ln.got, FirstBad(ln))>>
ASSUME \A i \in 1 .. Len(Lines) :
          LineOK(Lines[i]) \/ PrintT(<<"BAD", ToJson([i |-> i, why |-> Why(Lines[i]), kf |-> {}])>>)
ASSUME PrintT(<<"JUDGED", Len(Lines)>>)
JInit == /\ heap = 0 /\ doc = 0 /\ chg = 0 /\ ds = 0 /\ tags = 0 /\ refs = 0 /\ last = 0 /\ n = 0
JNext == UNCHANGED vars
=============================================================================
