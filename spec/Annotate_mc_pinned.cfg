CONSTANTS
  NK = 1
  MaxV <- V3
  MaxP = 1
  MaxT = 1
  MaxDt = 1
  CsSet = {1}
  ParentCsFree = TRUE
  RefLists <- RefsSingle
  SameTimeParents = TRUE
  RefsMustExist = TRUE
  OptSet <- OptsOrder
  PinnedSort = TRUE
INIT Init
NEXT Next
INVARIANTS TypeOK SortedInv Deterministic
CHECK_DEADLOCK FALSE
