CONSTANTS
  N = 3
  MaxMem = 1
  MaxReq = 0
  Family = "mixed1"
  FlagFamily = "plain"
  WithBad = FALSE
  CanonicalReqs = FALSE
  MaxSeq = 3
  VersionSets <- MCVersions
  ReqLists <- MCReqs
  BadSets <- MCBad
  FlagSets <- MCFlags
INIT Init
NEXT LNext
CHECK_DEADLOCK FALSE
