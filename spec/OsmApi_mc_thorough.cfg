CONSTANT Wide = TRUE
SPECIFICATION Spec
INVARIANTS TypeOK JudgeDoneInv PrefixInv DoneComplete DistinctInv NoNetInv Progress
CHECK_DEADLOCK FALSE
