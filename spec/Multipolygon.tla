----------------------------- MODULE Multipolygon -----------------------------
(* C16 - multipolygon assembly recovers the original rings for any split and order.      *)
(*                                                                                        *)
(* Purely combinatorial specification of                                                  *)
(*   osmgeojson.buildPolygon (group by role, single-outer / multi-outer paths, hole       *)
(*   assignment), internal/mputil.Join (greedy end-to-end joining with reversal and       *)
(*   duplicate end point trimming), MultiSegment.Ring / Orientation, mputil.Group and     *)
(*   annotate.orientation / annotateOrientation.                                          *)
(*                                                                                        *)
(* Three layers in one module:                                                            *)
(*   GROUND TRUTH + INPUT SPACE  a shape is a list of rings (outers and holes nested in   *)
(*       an outer); every ring is a cyclic sequence of vertex symbols listed              *)
(*       counter-clockwise. Cutting every ring into 1..MaxPieces ways, reversing any      *)
(*       subset and listing the ways in any order is a small generating machine           *)
(*       (AddCut, CloseRing, Place) and, equivalently, the set Cases(g).                  *)
(*   MODEL  the algorithms as a deterministic step machine over one record `st`:          *)
(*       every named action is a pair  Guard_X(s) / Eff_X(s);  the same pairs give the    *)
(*       function Step / RunToEnd used by the Judge module to predict the exact result    *)
(*       of the real code (divergence detection).                                         *)
(*   JUDGE  RingsRecovered, SameGeom (both coordinate sources / with or without           *)
(*       orientation), OrientationAnnotated: the listed property and nothing more.        *)
(*                                                                                        *)
(* Geometry is abstracted to three facts of the ground truth which the renderer of the    *)
(* harness guarantees (convex rings listed CCW, holes strictly inside their outer,        *)
(* outers disjoint):                                                                      *)
(*   - a point sequence runs CCW iff it follows the ring's canonical order (GeomOrient),  *)
(*   - a closed traversal of outer X contains a ring iff that ring has a vertex of a hole *)
(*     nested in X (PolyContains),                                                        *)
(*   - two points are equal iff their symbols are equal.                                  *)
EXTENDS Integers, Sequences, FiniteSets, TLC, SequencesExt

CONSTANTS Shapes,      \* set of ground-truth shapes explored by the generating machine
          MaxPieces,   \* every ring is cut into 1..MaxPieces ways
          MaskMode,    \* which members carry an orientation: "lean" none/all; "basic" none/all/odd; "all" every subset
          Tasks,       \* subset of {"convert", "annotate"}
          Patterns     \* how outer and inner members are interleaved: {"all"} or a subset of {"of", "if", "alt"}

(* ------------------------------------------------------------------------------------ *)
(* Ground truth                                                                          *)
(* ------------------------------------------------------------------------------------ *)
\* shape g = sequence of [n |-> number of vertices, parent |-> 0 (outer) | ring number of the outer]
\* vertex i of ring r is the symbol r*100+i; symbol 0 = "a coordinate that is no vertex"
Sym(r, i)    == r * 100 + i
RingNo(v)    == v \div 100
Idx(v)       == v % 100
Known(g, v)  == RingNo(v) \in 1 .. Len(g) /\ Idx(v) \in 1 .. g[RingNo(v)].n
Succ(g, v)   == Sym(RingNo(v), (Idx(v) % g[RingNo(v)].n) + 1)
Canon(g, r)  == [i \in 1 .. g[r].n |-> Sym(r, i)]          \* counter-clockwise
Outers(g)    == {r \in 1 .. Len(g) : g[r].parent = 0}
Holes(g, X)  == {r \in 1 .. Len(g) : g[r].parent = X}
RoleOf(g, r) == IF g[r].parent = 0 THEN "outer" ELSE "inner"
AllSyms(g)   == UNION {{Sym(r, i) : i \in 1 .. g[r].n} : r \in 1 .. Len(g)}

CCW == 1
CW  == -1

\* a point sequence that walks along one ring in canonical (resp. opposite) direction
IsFwd(g, line) == /\ Len(line) >= 2
                  /\ \A i \in 1 .. Len(line) : Known(g, line[i])
                  /\ \A i \in 1 .. Len(line) - 1 : line[i + 1] = Succ(g, line[i])
IsBwd(g, line) == IsFwd(g, Reverse(line))

\* direction in which a way (as listed) runs around its ring; 0 = not a path along a ring
DirOf(g, line) == IF IsFwd(g, line) THEN CCW ELSE IF IsBwd(g, line) THEN CW ELSE 0

(* ------------------------------------------------------------------------------------ *)
(* Input space: cuts, reversals, member orders                                           *)
(* ------------------------------------------------------------------------------------ *)
Arc(g, r, a, e) == [j \in 1 .. e + 1 |-> Sym(r, ((a + j - 2) % g[r].n) + 1)]   \* e edges from vertex a

CutSets(n) == {S \in SUBSET (1 .. n) : Cardinality(S) \in 1 .. MaxPieces}
NextCut(S, c) == IF \E d \in S : d > c THEN CHOOSE d \in S : d > c /\ \A x \in S : x > c => d <= x
                 ELSE CHOOSE d \in S : \A x \in S : d <= x
PieceAt(g, r, S, c) == Arc(g, r, c, ((NextCut(S, c) - c - 1 + g[r].n) % g[r].n) + 1)

\* all ways of cutting ring r and reversing any subset of the pieces: a set of sets of ways
RingVariants(g, r) ==
  UNION {{ {[ring |-> r, nodes |-> IF c \in D THEN Reverse(PieceAt(g, r, S, c)) ELSE PieceAt(g, r, S, c)] : c \in S}
            : D \in SUBSET S} : S \in CutSets(g[r].n)}

\* all orderings of a finite set (insert one element at every position of every ordering of the rest)
RECURSIVE Perms(_)
Perms(S) == IF S = {} THEN {<< >>}
            ELSE LET x == CHOOSE x \in S : TRUE
                     sub == Perms(S \ {x})
                 IN UNION {{SubSeq(q, 1, i - 1) \o <<x>> \o SubSeq(q, i, Len(q)) : i \in 1 .. Len(q) + 1} : q \in sub}

RECURSIVE Combos(_, _)
Combos(g, r) == IF r = 0 THEN {{}} ELSE UNION {{P \cup V : V \in RingVariants(g, r)} : P \in Combos(g, r - 1)}

MemberOf(g, p) == [role |-> RoleOf(g, p.ring), nodes |-> p.nodes, dir |-> DirOf(g, p.nodes)]

\* member orders of one cut/reversal combination P (a set of ways).  Either every order, or - for shapes with
\* holes, because the two roles are joined independently - every relative order inside a role merged in up to
\* three ways ("of" outers first, "if" inners first, "alt" alternating starting with an outer)
RECURSIVE Merge(_, _)
Merge(a, b) == IF a = << >> THEN b ELSE IF b = << >> THEN a ELSE <<a[1], b[1]>> \o Merge(Tail(a), Tail(b))
HasHoles(g) == \E r \in 1 .. Len(g) : g[r].parent # 0
OrdersOf(g, P) ==
  LET ml(s) == [i \in 1 .. Len(s) |-> MemberOf(g, s[i])] IN
  IF "all" \in Patterns \/ ~HasHoles(g) THEN {ml(s) : s \in Perms(P)}
  ELSE LET PO == {p \in P : RoleOf(g, p.ring) = "outer"}
           PI == P \ PO
       IN UNION {{ ml(s) : s \in {so \o si : x \in Patterns \cap {"of"}} \cup {si \o so : x \in Patterns \cap {"if"}}
                                 \cup {Merge(so, si) : x \in Patterns \cap {"alt"}} }
                  : so \in Perms(PO), si \in Perms(PI)}

\* the input space of shape g (= the completed member lists of the generating machine below)
Cases(g) == UNION {OrdersOf(g, P) : P \in Combos(g, Len(g))}

NoneMask(n) == [i \in 1 .. n |-> FALSE]
AllMask(n)  == [i \in 1 .. n |-> TRUE]
OddMask(n)  == [i \in 1 .. n |-> i % 2 = 1]
EvenMask(n) == [i \in 1 .. n |-> i % 2 = 0]
MasksFor(n) == IF MaskMode = "all" THEN [1 .. n -> BOOLEAN]
               ELSE IF MaskMode = "lean" THEN {NoneMask(n), AllMask(n)} ELSE {NoneMask(n), AllMask(n), OddMask(n)}

(* ------------------------------------------------------------------------------------ *)
(* MODEL                                                                                 *)
(* ------------------------------------------------------------------------------------ *)
\* input of one run: [g, members, mask (which members carry Orientation), src, task]
\* segment = mputil.Segment: [idx |-> member index, o |-> Orientation, rev |-> Reversed, line |-> points]
SegReverse(sg) == [sg EXCEPT !.rev = ~@, !.line = Reverse(@)]
MSFirst(ms)    == ms[1].line[1]
MSLast(ms)     == Last(Last(ms).line)
MSLine(ms)     == FlattenSeq([i \in 1 .. Len(ms) |-> ms[i].line])
MSClosed(ms)   == MSFirst(ms) = MSLast(ms)

\* orb.Ring.Orientation on a point sequence: CCW / CW for a walk of >= 3 points along a convex ring,
\* 0 (degenerate) otherwise
GeomOrient(g, line) == IF Len(line) < 3 THEN 0 ELSE DirOf(g, line)
\* MultiSegment.Orientation: `area > 0 -> CCW else CW`
MSOrient(g, ms) == IF GeomOrient(g, MSLine(ms)) = CCW THEN CCW ELSE CW

\* MultiSegment.Ring(o)  (mputil.go)
RingOfMS(g, ms, o) ==
  LET line == MSLine(ms)
      have == \E i \in 1 .. Len(ms) : ms[i].o # 0
      reversed == \E i \in 1 .. Len(ms) : ms[i].o # 0 /\ ((ms[i].o = o) = ms[i].rev)
  IN IF (have /\ reversed) \/ (~have /\ GeomOrient(g, line) # o) THEN Reverse(line) ELSE line

\* polygonContains(outer ring, ring): ray casting, "some point of ring is inside outer"
IsClosedWalkOf(g, ring, X) ==
  /\ Len(ring) = g[X].n + 1 /\ ring[1] = ring[Len(ring)]
  /\ (IsFwd(g, ring) \/ IsBwd(g, ring)) /\ RingNo(ring[1]) = X
PolyContains(g, outer, ring) ==
  \E X \in Outers(g) : IsClosedWalkOf(g, outer, X) /\ \E i \in 1 .. Len(ring) : Known(g, ring[i]) /\ g[RingNo(ring[i])].parent = X

\* addToMultiPolygon without includeInvalidPolygons
AddToMP(g, mp, ring) ==
  IF \E i \in 1 .. Len(mp) : PolyContains(g, mp[i][1], ring)
  THEN LET i == CHOOSE i \in 1 .. Len(mp) : PolyContains(g, mp[i][1], ring) /\ \A j \in 1 .. i - 1 : ~PolyContains(g, mp[j][1], ring)
       IN [mp EXCEPT ![i] = Append(@, ring)]
  ELSE mp

\* wayToLineString (convert.go): a way node's own location wins, else the node map, else dropped + tainted.
\* the location of node v is the symbol v itself; 0 = "no location" (lon = lat = 0)
WayLine(inp, nodes) ==
  LET loc(i) == IF inp.src = "waynodes" THEN nodes[i] ELSE 0
      nodeMap == IF inp.src = "nodes" THEN AllSyms(inp.g) ELSE {}
      pts == [i \in 1 .. Len(nodes) |-> IF loc(i) # 0 THEN loc(i) ELSE IF nodes[i] \in nodeMap THEN nodes[i] ELSE 0]
  IN [line |-> SelectSeq(pts, LAMBDA p : p # 0), tainted |-> \E i \in 1 .. Len(pts) : pts[i] = 0]

MemberOrient(inp, i) == IF inp.mask[i] THEN inp.members[i].dir ELSE 0

\* the member loop of buildPolygon (lines 22-88) and of mputil.Group: both pre-orient annotated members
GroupOne(inp, acc, i) ==
  LET m == inp.members[i]
      wl == WayLine(inp, m.nodes)
      sg == [idx |-> i, o |-> MemberOrient(inp, i), rev |-> FALSE, line |-> wl.line]
      acc1 == [acc EXCEPT !.ocount = IF m.role = "outer" THEN @ + 1 ELSE @, !.tainted = @ \/ wl.tainted]
  IN IF m.role \notin {"outer", "inner"} THEN acc
     ELSE IF wl.line = << >> THEN acc1
     ELSE IF m.role = "outer" THEN [acc1 EXCEPT !.outer = Append(@, IF sg.o = CW THEN SegReverse(sg) ELSE sg)]
     ELSE [acc1 EXCEPT !.inner = Append(@, IF sg.o = CCW THEN SegReverse(sg) ELSE sg)]
RECURSIVE GroupLoop(_, _, _)
GroupLoop(inp, acc, i) == IF i > Len(inp.members) THEN acc ELSE GroupLoop(inp, GroupOne(inp, acc, i), i + 1)
GroupMembers(inp) == GroupLoop(inp, [outer |-> << >>, inner |-> << >>, ocount |-> 0, tainted |-> FALSE], 1)

\* compact (join.go): drop segments with <= 1 point
Compact(segs) == SelectSeq(segs, LAMBDA sg : Len(sg.line) > 1)

\* the two removal loops of Join, transcribed literally (f0 = zero-based foundAt)
RemoveShift(s, f0) ==
  IF f0 < Len(s) \div 2
  THEN Tail([i \in 1 .. Len(s) |-> IF i - 1 >= 1 /\ i - 1 <= f0 THEN s[i - 1] ELSE s[i]])        \* shift up, drop first
  ELSE Front([i \in 1 .. Len(s) |-> IF i - 1 >= f0 /\ i - 1 < Len(s) - 1 THEN s[i + 1] ELSE s[i]]) \* shift down, drop last

\* which of the four branches of the search loop matches segment sg against the current group (0 = none)
Branch(cur, sg) == IF MSLast(cur) = sg.line[1] THEN 1
                   ELSE IF MSLast(cur) = Last(sg.line) THEN 2
                   ELSE IF MSFirst(cur) = Last(sg.line) THEN 3
                   ELSE IF MSFirst(cur) = sg.line[1] THEN 4 ELSE 0
MatchIdx(s) == IF \E i \in 1 .. Len(s.segs) : Branch(s.cur, s.segs[i]) # 0
               THEN CHOOSE i \in 1 .. Len(s.segs) : Branch(s.cur, s.segs[i]) # 0 /\ \A j \in 1 .. i - 1 : Branch(s.cur, s.segs[j]) = 0
               ELSE 0

A0 == [pc |-> "idle", outer |-> << >>, inner |-> << >>, ocount |-> 0, tainted |-> FALSE,
       segs |-> << >>, cur |-> << >>, lists |-> << >>, outs |-> << >>, ins |-> << >>, k |-> 0,
       mp |-> << >>, single |-> FALSE, feature |-> FALSE, annot |-> << >>, lastb |-> 0]

JoinPcs == {"joinO", "joinI", "joinAO", "joinAI"}
JoinStart(s, segs, pc) == [s EXCEPT !.pc = pc, !.segs = Compact(segs), !.cur = << >>, !.lists = << >>]
NilFeature(s) == [s EXCEPT !.pc = "done", !.feature = FALSE, !.mp = << >>]

(* ---- named actions as guard / effect pairs over (inp, s) ---- *)
\* buildPolygon: member loop
G_CGroup(inp, s) == s.pc = "start" /\ inp.task = "convert"
E_CGroup(inp, s) == LET a == GroupMembers(inp) IN
   [s EXCEPT !.pc = "dispatch", !.outer = a.outer, !.inner = a.inner, !.ocount = a.ocount, !.tainted = a.tainted]

\* len(outer) == 0: no feature
G_CNoOuter(inp, s) == s.pc = "dispatch" /\ Len(s.outer) = 0
E_CNoOuter(inp, s) == NilFeature(s)

\* exactly one outer member: the way itself must be a ring
G_CSingle(inp, s) == s.pc = "dispatch" /\ Len(s.outer) = 1 /\ s.ocount = 1
E_CSingle(inp, s) == LET ring == RingOfMS(inp.g, s.outer, CCW) IN
   IF Len(ring) < 4 \/ ring[1] # ring[Len(ring)] THEN NilFeature(s)
   ELSE JoinStart([s EXCEPT !.single = TRUE, !.mp = << <<ring>> >>], s.inner, "joinI")

G_CMulti(inp, s) == s.pc = "dispatch" /\ Len(s.outer) # 0 /\ ~(Len(s.outer) = 1 /\ s.ocount = 1)
E_CMulti(inp, s) == JoinStart(s, s.outer, "joinO")

\* Join: take the last remaining segment as a new group
G_JPop(inp, s) == s.pc \in JoinPcs /\ s.cur = << >> /\ s.segs # << >>
E_JPop(inp, s) == [s EXCEPT !.cur = <<Last(s.segs)>>, !.segs = Front(s.segs)]

\* Join: one iteration of the inner loop that finds a match (branches 1..4)
G_JMatch(inp, s) == s.pc \in JoinPcs /\ s.cur # << >> /\ s.segs # << >> /\ ~MSClosed(s.cur) /\ MatchIdx(s) # 0
E_JMatch(inp, s) ==
  LET i  == MatchIdx(s)
      sg == s.segs[i]
      b  == Branch(s.cur, sg)
      cur2 == CASE b = 1 -> Append(s.cur, [sg EXCEPT !.line = Tail(@)])
                [] b = 2 -> Append(s.cur, [SegReverse(sg) EXCEPT !.line = Tail(@)])
                [] b = 3 -> <<[sg EXCEPT !.line = Front(@)]>> \o s.cur
                [] b = 4 -> <<[SegReverse(sg) EXCEPT !.line = Front(@)]>> \o s.cur
  IN [s EXCEPT !.cur = cur2, !.segs = RemoveShift(s.segs, i - 1), !.lastb = b]

\* Join: group finished (ring closed, nothing left, or nothing fits = invalid geometry)
G_JEmit(inp, s) == s.pc \in JoinPcs /\ s.cur # << >> /\ (s.segs = << >> \/ MSClosed(s.cur) \/ MatchIdx(s) = 0)
E_JEmit(inp, s) == [s EXCEPT !.lists = Append(@, s.cur), !.cur = << >>]

\* Join returns
G_JEnd(inp, s) == s.pc \in JoinPcs /\ s.cur = << >> /\ s.segs = << >>
E_JEnd(inp, s) ==
  CASE s.pc = "joinO"  -> [s EXCEPT !.pc = "orings", !.outs = s.lists, !.k = 1]
    [] s.pc = "joinI"  -> [s EXCEPT !.pc = "irings", !.ins = s.lists, !.k = 1]
    [] s.pc = "joinAO" -> JoinStart([s EXCEPT !.outs = s.lists], s.inner, "joinAI")
    [] s.pc = "joinAI" -> [s EXCEPT !.pc = "annO", !.ins = s.lists, !.k = 1]

\* multi-outer path: one outer section -> ring (invalid ones are skipped)
G_COuterRing(inp, s) == s.pc = "orings" /\ s.k <= Len(s.outs)
E_COuterRing(inp, s) == LET ring == RingOfMS(inp.g, s.outs[s.k], CCW) IN
   [s EXCEPT !.k = @ + 1, !.mp = IF Len(ring) < 4 \/ ring[1] # ring[Len(ring)] THEN @ ELSE Append(@, <<ring>>)]

G_COuterDone(inp, s) == s.pc = "orings" /\ s.k > Len(s.outs)
E_COuterDone(inp, s) == IF Len(s.mp) = 0 THEN NilFeature(s) ELSE JoinStart(s, s.inner, "joinI")

\* one inner section -> ring -> its polygon
G_CInnerRing(inp, s) == s.pc = "irings" /\ s.k <= Len(s.ins)
E_CInnerRing(inp, s) == LET ring == RingOfMS(inp.g, s.ins[s.k], CW) IN
   [s EXCEPT !.k = @ + 1, !.mp = IF s.single THEN [@ EXCEPT ![1] = Append(@, ring)] ELSE AddToMP(inp.g, @, ring)]

G_CFinish(inp, s) == s.pc = "irings" /\ s.k > Len(s.ins)
E_CFinish(inp, s) == IF Len(s.mp) = 0 THEN NilFeature(s) ELSE [s EXCEPT !.pc = "done", !.feature = TRUE]

\* annotate.orientation: Group, Join(outer), Join(inner), annotateOrientation per group
G_AGroup(inp, s) == s.pc = "start" /\ inp.task = "annotate"
E_AGroup(inp, s) == LET a == GroupMembers(inp) IN
   JoinStart([s EXCEPT !.outer = a.outer, !.inner = a.inner, !.tainted = a.tainted,
                       !.annot = [i \in 1 .. Len(inp.members) |-> MemberOrient(inp, i)]], a.outer, "joinAO")

AnnotateMS(g, annot, ms, o) ==
  LET factor == IF MSOrient(g, ms) # o THEN -1 ELSE 1
      val(sg) == IF sg.rev THEN (-1) * factor * o ELSE factor * o
  IN [i \in 1 .. Len(annot) |-> IF \E j \in 1 .. Len(ms) : ms[j].idx = i
                                THEN val(ms[CHOOSE j \in 1 .. Len(ms) : ms[j].idx = i /\ \A j2 \in j + 1 .. Len(ms) : ms[j2].idx # i])
                                ELSE annot[i]]

G_AOuter(inp, s) == s.pc = "annO" /\ s.k <= Len(s.outs)
E_AOuter(inp, s) == [s EXCEPT !.k = @ + 1, !.annot = AnnotateMS(inp.g, @, s.outs[s.k], CCW)]
G_AOuterDone(inp, s) == s.pc = "annO" /\ s.k > Len(s.outs)
E_AOuterDone(inp, s) == [s EXCEPT !.pc = "annI", !.k = 1]
G_AInner(inp, s) == s.pc = "annI" /\ s.k <= Len(s.ins)
E_AInner(inp, s) == [s EXCEPT !.k = @ + 1, !.annot = AnnotateMS(inp.g, @, s.ins[s.k], CW)]
G_ADone(inp, s) == s.pc = "annI" /\ s.k > Len(s.ins)
E_ADone(inp, s) == [s EXCEPT !.pc = "done"]

ActionNames == {"CGroup", "CNoOuter", "CSingle", "CMulti", "JPop", "JMatch", "JEmit", "JEnd", "COuterRing", "COuterDone",
                "CInnerRing", "CFinish", "AGroup", "AOuter", "AOuterDone", "AInner", "ADone"}
Guard(a, inp, s) ==
  CASE a = "CGroup" -> G_CGroup(inp, s) [] a = "CNoOuter" -> G_CNoOuter(inp, s) [] a = "CSingle" -> G_CSingle(inp, s)
    [] a = "CMulti" -> G_CMulti(inp, s) [] a = "JPop" -> G_JPop(inp, s) [] a = "JMatch" -> G_JMatch(inp, s)
    [] a = "JEmit" -> G_JEmit(inp, s) [] a = "JEnd" -> G_JEnd(inp, s) [] a = "COuterRing" -> G_COuterRing(inp, s)
    [] a = "COuterDone" -> G_COuterDone(inp, s) [] a = "CInnerRing" -> G_CInnerRing(inp, s) [] a = "CFinish" -> G_CFinish(inp, s)
    [] a = "AGroup" -> G_AGroup(inp, s) [] a = "AOuter" -> G_AOuter(inp, s) [] a = "AOuterDone" -> G_AOuterDone(inp, s)
    [] a = "AInner" -> G_AInner(inp, s) [] a = "ADone" -> G_ADone(inp, s)
Eff(a, inp, s) ==
  CASE a = "CGroup" -> E_CGroup(inp, s) [] a = "CNoOuter" -> E_CNoOuter(inp, s) [] a = "CSingle" -> E_CSingle(inp, s)
    [] a = "CMulti" -> E_CMulti(inp, s) [] a = "JPop" -> E_JPop(inp, s) [] a = "JMatch" -> E_JMatch(inp, s)
    [] a = "JEmit" -> E_JEmit(inp, s) [] a = "JEnd" -> E_JEnd(inp, s) [] a = "COuterRing" -> E_COuterRing(inp, s)
    [] a = "COuterDone" -> E_COuterDone(inp, s) [] a = "CInnerRing" -> E_CInnerRing(inp, s) [] a = "CFinish" -> E_CFinish(inp, s)
    [] a = "AGroup" -> E_AGroup(inp, s) [] a = "AOuter" -> E_AOuter(inp, s) [] a = "AOuterDone" -> E_AOuterDone(inp, s)
    [] a = "AInner" -> E_AInner(inp, s) [] a = "ADone" -> E_ADone(inp, s)

\* the machine as a function (used by the Judge module on recorded cases)
\* (Candidates only narrows the search by program counter; invariant Deterministic checks it loses nothing)
Candidates(pc) ==
  CASE pc \in JoinPcs  -> {"JPop", "JMatch", "JEmit", "JEnd"}
    [] pc = "start"    -> {"CGroup", "AGroup"}
    [] pc = "dispatch" -> {"CNoOuter", "CSingle", "CMulti"}
    [] pc = "orings"   -> {"COuterRing", "COuterDone"}
    [] pc = "irings"   -> {"CInnerRing", "CFinish"}
    [] pc = "annO"     -> {"AOuter", "AOuterDone"}
    [] pc = "annI"     -> {"AInner", "ADone"}
    [] OTHER           -> {}
Step(inp, s) == Eff(CHOOSE a \in Candidates(s.pc) : Guard(a, inp, s), inp, s)
RECURSIVE RunToEnd(_, _)
RunToEnd(inp, s) == IF s.pc = "done" THEN s ELSE RunToEnd(inp, Step(inp, s))
RunModel(inp) == RunToEnd(inp, [A0 EXCEPT !.pc = "start"])
ResultOf(s) == [feature |-> s.feature, polys |-> s.mp]

(* ------------------------------------------------------------------------------------ *)
(* JUDGE (the listed property)                                                           *)
(* ------------------------------------------------------------------------------------ *)
IsRotation(a, b) == Len(a) = Len(b) /\ \E k \in 0 .. Len(a) - 1 : \A i \in 1 .. Len(a) : a[i] = b[((i - 1 + k) % Len(a)) + 1]
\* ring is closed and, without the closing point, is `cyc` up to rotation: nothing lost, duplicated or invented
ClosedCycle(ring, cyc) == Len(ring) = Len(cyc) + 1 /\ ring[1] = ring[Len(ring)] /\ IsRotation(SubSeq(ring, 1, Len(ring) - 1), cyc)

\* res = [feature |-> exactly one (multi)polygon feature came out, polys |-> <<polygon>>], polygon = <<outer ring, hole, ...>>
RingsRecovered(g, res) ==
  /\ res.feature
  /\ Len(res.polys) = Cardinality(Outers(g))
  /\ \A X \in Outers(g) :
       \E p \in 1 .. Len(res.polys) :
          /\ Len(res.polys[p]) = 1 + Cardinality(Holes(g, X))
          /\ ClosedCycle(res.polys[p][1], Canon(g, X))                                                    \* outer: CCW
          /\ \A h \in Holes(g, X) : \E j \in 2 .. Len(res.polys[p]) : ClosedCycle(res.polys[p][j], Reverse(Canon(g, h)))  \* holes: CW

\* "the result is the same": the same polygons with the same rings, as cyclic sequences with direction
\* (the start vertex of a ring and the order of polygons / holes are representation, not geometry)
MinOf(S) == CHOOSE x \in S : \A y \in S : x <= y
NormRing(ring) ==
  IF Len(ring) >= 2 /\ ring[1] = ring[Len(ring)]
  THEN LET open == SubSeq(ring, 1, Len(ring) - 1)
           n == Len(open)
           m == MinOf({open[i] : i \in 1 .. n})
           k == CHOOSE k \in 1 .. n : open[k] = m /\ \A j \in 1 .. k - 1 : open[j] # m
       IN <<"closed", [i \in 1 .. n |-> open[((i + k - 2) % n) + 1]]>>
  ELSE <<"open", ring>>
NormPoly(p) == IF Len(p) = 0 THEN <<0, << >>, {}>> ELSE <<Len(p), NormRing(p[1]), {NormRing(p[j]) : j \in 2 .. Len(p)}>>
GeomOf(a) == <<a.feature, Len(a.polys), {NormPoly(a.polys[i]) : i \in 1 .. Len(a.polys)}>>
SameGeom(a, b) == GeomOf(a) = GeomOf(b)

\* after annotation every way member carries the direction in which it runs around its ring
OrientationAnnotated(g, members, annot) ==
  /\ Len(annot) = Len(members)
  /\ \A i \in 1 .. Len(members) : annot[i] # 0 /\ annot[i] = DirOf(g, members[i].nodes)

(* ------------------------------------------------------------------------------------ *)
(* Generating machine + algorithm machine (design-level model checking)                  *)
(* ------------------------------------------------------------------------------------ *)
VARIABLES g, pat, cutr, cuts, pool, members, run, st
vars == <<g, pat, cutr, cuts, pool, members, run, st>>

NoRun == [task |-> "none", src |-> "none", mask |-> << >>]
Inp == [g |-> g, members |-> members, mask |-> run.mask, src |-> run.src, task |-> run.task]

\* interleaving patterns: the two roles are joined independently, so for shapes with holes only three
\* interleavings of the (exhaustively ordered) outer and inner members are explored unless Patterns = {"all"}
PatternsFor(gg) == IF \E r \in 1 .. Len(gg) : gg[r].parent # 0 THEN Patterns ELSE {"all"}
NextRoles ==
  LET ro == {RoleOf(g, p.ring) : p \in pool}
      opp == IF members # << >> /\ Last(members).role = "outer" THEN "inner" ELSE "outer"
  IN CASE pat = "all" -> ro
       [] pat = "of"  -> IF "outer" \in ro THEN {"outer"} ELSE ro
       [] pat = "if"  -> IF "inner" \in ro THEN {"inner"} ELSE ro
       [] pat = "alt" -> IF opp \in ro THEN {opp} ELSE ro

Init == g \in Shapes /\ pat \in PatternsFor(g) /\ cutr = 1 /\ cuts = {} /\ pool = {} /\ members = << >> /\ run = NoRun /\ st = A0

\* cut the current ring at one more vertex (cut positions are chosen in increasing order)
AddCut == /\ cutr <= Len(g) /\ Cardinality(cuts) < MaxPieces
          /\ \E c \in 1 .. g[cutr].n : (\A d \in cuts : c > d) /\ cuts' = cuts \cup {c}
          /\ UNCHANGED <<g, pat, cutr, pool, members, run, st>>

\* finish the current ring: reverse any subset D of its pieces and add them to the pool of ways
CloseRing == /\ cutr <= Len(g) /\ cuts # {}
             /\ \E D \in SUBSET cuts :
                   pool' = pool \cup {[ring |-> cutr, nodes |-> IF c \in D THEN Reverse(PieceAt(g, cutr, cuts, c)) ELSE PieceAt(g, cutr, cuts, c)] : c \in cuts}
             /\ cuts' = {} /\ cutr' = cutr + 1
             /\ UNCHANGED <<g, pat, members, run, st>>
CutRing == AddCut \/ CloseRing

Place == /\ cutr > Len(g) /\ pool # {}
         /\ \E p \in pool : RoleOf(g, p.ring) \in NextRoles /\ members' = Append(members, MemberOf(g, p)) /\ pool' = pool \ {p}
         /\ UNCHANGED <<g, pat, cutr, cuts, run, st>>

\* runs explored per member list: every mask with separate node objects, the un-annotated relation with
\* annotated way nodes (the abstract algorithm sees the coordinate source only in the member loop), annotation
RunsFor(n) == {r \in {[task |-> "convert", src |-> "nodes", mask |-> m] : m \in MasksFor(n)}
                     \cup {[task |-> "convert", src |-> "waynodes", mask |-> NoneMask(n)] : x \in {MaskMode} \ {"lean"}}
                     \cup {[task |-> "annotate", src |-> "waynodes", mask |-> NoneMask(n)]} : r.task \in Tasks}

Ready == cutr > Len(g) /\ pool = {} /\ st.pc = "idle"

Begin == /\ Ready
         /\ run' \in RunsFor(Len(members))
         /\ st' = [A0 EXCEPT !.pc = "start"]
         /\ UNCHANGED <<g, pat, cutr, cuts, pool, members>>

Act(a) == st.pc \notin {"idle", "done"} /\ Guard(a, Inp, st) /\ st' = Eff(a, Inp, st) /\ UNCHANGED <<g, pat, cutr, cuts, pool, members, run>>

CGroup == Act("CGroup")          CNoOuter == Act("CNoOuter")      CSingle == Act("CSingle")     CMulti == Act("CMulti")
JPop == Act("JPop")              JMatch == Act("JMatch")          JEmit == Act("JEmit")         JEnd == Act("JEnd")
COuterRing == Act("COuterRing")  COuterDone == Act("COuterDone")  CInnerRing == Act("CInnerRing")  CFinish == Act("CFinish")
AGroup == Act("AGroup")          AOuter == Act("AOuter")          AOuterDone == Act("AOuterDone")
AInner == Act("AInner")          ADone == Act("ADone")
Finished == st.pc = "done" /\ UNCHANGED vars

Algo == \/ CGroup \/ CNoOuter \/ CSingle \/ CMulti \/ JPop \/ JMatch \/ JEmit \/ JEnd \/ COuterRing \/ COuterDone
        \/ CInnerRing \/ CFinish \/ AGroup \/ AOuter \/ AOuterDone \/ AInner \/ ADone
Next == CutRing \/ Place \/ Begin \/ Algo \/ Finished
NextGen == CutRing \/ Place            \* generation only (used with -simulate to sample larger cases)

Spec == Init /\ [][Next]_vars
\* every started run terminates (CloseRing must win over AddCut eventually: strong fairness not needed, AddCut is bounded)
FairSpec == Spec /\ WF_vars(AddCut) /\ WF_vars(CloseRing) /\ WF_vars(Place) /\ WF_vars(Begin) /\ WF_vars(Algo)

(* ---- invariants checked by TLC: Model |= Judges ---- *)
ConvertRecovers == (run.task = "convert" /\ st.pc = "done") => RingsRecovered(g, ResultOf(st)) /\ ~st.tainted
AnnotateMarks   == (run.task = "annotate" /\ st.pc = "done") => OrientationAnnotated(g, members, st.annot)

\* the step function is well defined: exactly one action is enabled in every running state
Deterministic == st.pc \notin {"idle", "done"} =>
   /\ Cardinality({a \in ActionNames : Guard(a, Inp, st)}) = 1
   /\ \A a \in ActionNames : Guard(a, Inp, st) => a \in Candidates(st.pc)

\* the two removal loops of Join both delete exactly the found segment
RemoveIsRemoveAt == \A i \in 1 .. Len(st.segs) : RemoveShift(st.segs, i - 1) = RemoveAt(st.segs, i)

\* with every member annotated Join never has to reverse a way (all ways were pre-oriented by the member loop)
NoJoinReversalWhenAnnotated == (run.task = "convert" /\ run.mask = AllMask(Len(members)) /\ Len(members) > 0) => st.lastb \notin {2, 4}

\* every group Join emits for a well-formed input is a closed ring
JoinEmitsRings == \A i \in 1 .. Len(st.lists) : MSClosed(st.lists[i]) /\ Len(MSLine(st.lists[i])) >= 4

\* the clauses that compare runs, evaluated with the machine as a function at every completed member list
ModeResult(src, m) == ResultOf(RunModel([g |-> g, members |-> members, mask |-> m, src |-> src, task |-> "convert"]))
SameForBothCoordinateSources ==
  Ready => \A m \in MasksFor(Len(members)) : SameGeom(ModeResult("nodes", m), ModeResult("waynodes", m))
SameWithOrWithoutOrientation ==
  Ready => \A m \in MasksFor(Len(members)) : SameGeom(ModeResult("nodes", NoneMask(Len(members))), ModeResult("nodes", m))

\* the generating machine produces exactly the declared input space (checked for small shapes)
ReadyIsCase == Ready => members \in Cases(g)

Terminates == <>(st.pc = "done")
=============================================================================
