INIT MCInit
NEXT MCNext
INVARIANT RunsAreTheSpec
CHECK_DEADLOCK FALSE
