CONSTANT FullPairs = TRUE
INIT Init
NEXT Next
INVARIANT OrderFree
CHECK_DEADLOCK FALSE
