CONSTANTS
  NK = 1
  MaxV <- V3
  MaxP = 2
  MaxT = 5
  MaxDt = 3
  CsSet = {1, 2}
  ParentCsFree = FALSE
  RefLists <- RefsOne
  SameTimeParents = FALSE
  RefsMustExist = TRUE
  OptSet <- OptsStamp01
  PinnedSort = FALSE
INIT Init
NEXT Next
INVARIANTS TypeOK JudgesHold SortedInv Deterministic PartialInv
CHECK_DEADLOCK FALSE
