CONSTANTS
  N = 3
  MaxMem = 2
  MaxReq = 0
  Family = "flat"
  FlagFamily = "plain"
  WithBad = FALSE
  CanonicalReqs = FALSE
  MaxSeq = 3
  VersionSets <- MCVersions
  ReqLists <- MCReqs
  BadSets <- MCBad
  FlagSets <- MCFlags
INIT Init
NEXT LNext
CHECK_DEADLOCK FALSE
