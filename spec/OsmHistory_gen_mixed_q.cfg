CONSTANTS
  NK = 2
  MaxV <- V22
  MaxP = 2
  MaxT = 2
  MaxDt = 1
  CsSet = {1}
  ParentCsFree = TRUE
  RefLists <- RefsSmall
  SameTimeParents = TRUE
  RefsMustExist = TRUE
  GenOpts <- OptsMixedQ
  SampleMod = 1
INIT HInit
NEXT HNext
INVARIANTS HistoryOK GenInv
CHECK_DEADLOCK FALSE
