--------------------------- MODULE PbfOrderInd ---------------------------
(* C02, design level, UNBOUNDED in the number of blocks: the obligations of the *)
(* inductive invariant of PbfOrderCore, discharged by Apalache per (N, Cap)     *)
(* (constants from a generated .cfg):                                           *)
(*   base  : Init    => IndInv            (--init=Init    --length=0)           *)
(*   step  : IndInv /\ Next => IndInv'    (--init=IndInit --length=1)           *)
(* plus two canaries that must be refuted (WeakInv is not inductive;            *)
(* NothingEmitted is violated from Init, i.e. the core is not vacuous).         *)
EXTENDS PbfOrderCore, Apalache

\* any state satisfying the invariant (Apalache generates the data structures, IndInv constrains them)
IndInit ==
  /\ rnext \in Int /\ emitted \in Int /\ ok \in BOOLEAN
  /\ inq = Gen(N) /\ outq = Gen(N) /\ wcur = Gen(N)
  /\ IndInv

\* canary: without the link between the queues' contents and the counts the step obligation must fail
WeakInv ==
  /\ rnext >= 1 /\ emitted >= 0 /\ emitted < rnext /\ ok
  /\ DOMAIN inq = W /\ DOMAIN outq = W /\ DOMAIN wcur = W
  /\ \A w \in W : Len(inq[w]) <= Cap /\ Len(outq[w]) <= Cap /\ wcur[w] >= 0
WeakInit ==
  /\ rnext \in Int /\ emitted \in Int /\ ok \in BOOLEAN
  /\ inq = Gen(N) /\ outq = Gen(N) /\ wcur = Gen(N)
  /\ WeakInv
=============================================================================
