CONSTANTS
  N = 0
  VersionSets = {}
  ReqLists = {}
  BadSets = {}
  FlagSets = {}
INIT Init
NEXT JNext
CHECK_DEADLOCK FALSE
