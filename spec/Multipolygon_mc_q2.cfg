\* design level: Model |= Judges over every cut / reversal / member order of the shapes
CONSTANT Shapes <- S_MCQ2
CONSTANT MaxPieces = 2
CONSTANT MaskMode = "lean"
CONSTANT Tasks = {"convert", "annotate"}
CONSTANT Patterns = {"of", "alt"}
INIT Init
NEXT Next
INVARIANT ConvertRecovers
INVARIANT AnnotateMarks
INVARIANT Deterministic
INVARIANT RemoveIsRemoveAt
INVARIANT NoJoinReversalWhenAnnotated
INVARIANT JoinEmitsRings
