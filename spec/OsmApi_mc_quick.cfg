CONSTANT Wide = FALSE
SPECIFICATION Spec
INVARIANTS TypeOK JudgeInv DoneComplete DistinctInv NoNetInv Progress
CHECK_DEADLOCK FALSE
