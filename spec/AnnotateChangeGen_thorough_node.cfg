\* case generation, thorough tier, one of three processes: Singles of kind node (HMax 5, both input flags) and all Pairs,
\* Houses, Failing (duplicates across the three processes are dropped by the driver); random draws: AnnotateChangeGenR
CONSTANTS
  HMax = 5
  SingleKinds = {"node"}
  BothVis = TRUE
  PairVers = {1, 2, 3, 4}
  NRandom = 0
  BuildMax = 0
  BuildIds = {}
  WithFamilies = TRUE
  StaticInit = TRUE
INIT GInit
NEXT GNext
CHECK_DEADLOCK FALSE
