-------------------------- MODULE OsmHistoryFamily --------------------------
(* C12's dedicated input family (a declarative subset of the histories of     *)
(* OsmHistory.tla, beyond the bounds TLC can reach breadth-first): n children,*)
(* each with m visible versions of which several share a timestamp, listed r  *)
(* times by a parent version committed together with the children's first     *)
(* versions - so that one parent receives n*(m-1)*r updates (more than a      *)
(* dozen: sort.Sort stops being an insertion sort) with equal (index, time)   *)
(* keys.  Optionally a second parent version closes the interval.             *)
(* tail = 1 / 2: one / two further parent versions (times 4, 7) each followed *)
(* by one more edit of every child (times 5, 8): a busy EARLY parent version  *)
(* (more than two updates per position) followed by quiet later ones, so that *)
(* the per-parent update lists must stay apart.                               *)
EXTENDS Integers, Sequences, FiniteSets, TLC, Json, IOUtils, SequencesExt, AnnotateSets

CONSTANTS NSet, MSet, TailMSet, RSet, FamOpts

\* times of versions 2 .. m: non-decreasing over {1, 2}
TimePatterns(m) == {f \in [1 .. m - 1 -> 1 .. 2] : \A a \in 1 .. m - 2 : f[a] <= f[a + 1]}

KidOf(m, tp, shift) == [v \in 1 .. m |-> [t |-> IF v = 1 THEN 0 ELSE tp[v - 1] + shift, vis |-> TRUE, cs |-> 1]]
RefsOf(n, r) == [j \in 1 .. n * r |-> Rf(((j - 1) % n) + 1, FALSE)]

\* alt: every second child is edited one tick later than the others
\* rev: the times of versions 2 .. m run backwards (timestamps that disagree with the version
\*      order occur in real data; then "by time and then by version" differs from "by version")
Rev(m, tp) == [a \in 1 .. m - 1 |-> tp[m - a]]
Fam(n, m, r, tp0, alt, two, rev) ==
  LET tp == IF rev THEN Rev(m, tp0) ELSE tp0 IN
  [kids |-> [k \in 1 .. n |-> KidOf(m, tp, IF alt /\ k % 2 = 0 THEN 1 ELSE 0)],
   par  |-> <<[t |-> 0, vis |-> TRUE, cs |-> 1, refs |-> RefsOf(n, r)]>> \o
            (IF two THEN <<[t |-> 4, vis |-> TRUE, cs |-> 2, refs |-> RefsOf(n, 1)]>> ELSE <<>>)]

TailVers(tail) == [a \in 1 .. tail |-> [t |-> 2 + 3 * a, vis |-> TRUE, cs |-> 1 + a]]
TailPars(n, r, tail) == [a \in 1 .. tail |-> [t |-> 1 + 3 * a, vis |-> TRUE, cs |-> 1 + a, refs |-> RefsOf(n, IF a = 1 THEN r ELSE 1)]]
FamTail(n, m, r, tp, alt, tail) ==
  [kids |-> [k \in 1 .. n |-> KidOf(m, tp, IF alt /\ k % 2 = 0 THEN 1 ELSE 0) \o TailVers(tail)],
   par  |-> <<[t |-> 0, vis |-> TRUE, cs |-> 1, refs |-> RefsOf(n, r)]>> \o TailPars(n, r, tail)]

Families == UNION { { Fam(n, m, r, tp, alt, two, rev) : tp \in TimePatterns(m), alt \in BOOLEAN, two \in BOOLEAN, rev \in BOOLEAN } :
                    n \in NSet, m \in MSet, r \in RSet }
            \cup
            UNION { { FamTail(n, m, r, tp, alt, tail) : tp \in TimePatterns(m), alt \in BOOLEAN, tail \in 1 .. 2 } :
                    n \in NSet, m \in TailMSet, r \in RSet }

ASSUME PrintT(<<"OPTS", ToJson(FamOpts)>>)
ASSUME ndJsonSerialize(IOEnv.OUT, SetToSeq(Families))

VARIABLE dummy
FInit == dummy = 0
FNext == UNCHANGED dummy
=============================================================================
