CONSTANT Tier = "quick"
CONSTANT Configs = {}
INIT JInitG
NEXT JNextG
CHECK_DEADLOCK FALSE
