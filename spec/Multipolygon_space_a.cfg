\* the generating machine (AddCut, CloseRing, Place) produces member lists of the declared input space Cases(g)
CONSTANT Shapes <- S_SpaceA
CONSTANT MaxPieces = 3
CONSTANT MaskMode = "basic"
CONSTANT Tasks = {}
CONSTANT Patterns = {"all"}
INIT Init
NEXT NextGen
INVARIANT ReadyIsCase
CHECK_DEADLOCK FALSE
