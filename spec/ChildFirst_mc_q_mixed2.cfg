\* two versions with different members, non-relation members; 2 ids
CONSTANTS
  N = 2
  MaxMem = 1
  MaxReq = 1
  Family = "mixed"
  FlagFamily = "stops"
  WithBad = FALSE
  CanonicalReqs = TRUE
  VersionSets <- MCVersions
  ReqLists <- MCReqs
  BadSets <- MCBad
  FlagSets <- MCFlags
SPECIFICATION ReducedSpec
INVARIANTS ProjectionLemma TypeOK EmittedOnce OnlyWithHistory ChildrenFirst AllRequestedEmitted StopEndsIteration EmitsPrefixOfRunOut RanToEndEmitsRunOut CompletedAtEnd VisitedIsEmittedOrSending
CHECK_DEADLOCK FALSE
