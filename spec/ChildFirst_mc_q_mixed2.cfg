\* two versions with different members, non-relation members; 2 ids; undisturbed iteration; ProjectionLemma
CONSTANTS
  N = 2
  MaxMem = 1
  MaxReq = 2
  Family = "mixed"
  FlagFamily = "plain"
  WithBad = FALSE
  CanonicalReqs = TRUE
  VersionSets <- MCVersions
  ReqLists <- MCReqs
  BadSets <- MCBad
  FlagSets <- MCFlags
SPECIFICATION ReducedSpec
INVARIANTS ProjectionLemma TypeOK EmittedOnce OnlyWithHistory ChildrenFirst AllRequestedEmitted StopEndsIteration EmitsPrefixOfRunOut RanToEndEmitsRunOut CompletedAtEnd VisitedIsEmittedOrSending
CHECK_DEADLOCK FALSE
