INIT JInit
NEXT JNext
CHECK_DEADLOCK FALSE
