CONSTANTS
  N = 0
  VersionSets = {}
  ReqLists = {}
  BadSets = {}
  FlagSets = {}
  DeepTier = "thorough"
INIT Init
NEXT GNext
CHECK_DEADLOCK FALSE
