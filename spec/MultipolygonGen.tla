--------------------------- MODULE MultipolygonGen ---------------------------
(* C16 case generation.  TLC explores the generating machine of Multipolygon.tla (NextGen = AddCut, CloseRing,   *)
(* Place); every completed member list is appended to the file IOEnv.OUT as one JSON line.                       *)
(*   exhaustive: breadth-first search, invariant EmitFile  (every cut / reversal / member order of every shape)   *)
(*   sampled:    -simulate, invariant EmitSim (larger shapes; one random case per behaviour, random mask)         *)
(* The orientation masks, the relation type and the node order are spread deterministically over the cases.     *)
EXTENDS MultipolygonMC, IOUtils, Json, CSV

MasksOf(ms) == LET n == Len(ms) IN
  IF n = 1 THEN <<NoneMask(n), AllMask(n)>>
  ELSE <<NoneMask(n), AllMask(n), IF Idx(ms[1].nodes[1]) % 2 = 0 THEN EvenMask(n) ELSE OddMask(n)>>

\* grid: the renderer places the vertices on a coarse grid, so that rings share latitudes / longitudes exactly (a
\* hole vertex level with a vertex of another outer).  Shapes with several outers and a hole - where the hole has to
\* be assigned to one of several outers - are emitted under both placements, the other cases under one of them.
MultiOuterWithHole(gg) == Cardinality(Outers(gg)) >= 2 /\ HasHoles(gg)

\* near: the renderer puts two sibling rings (two outers, or two holes of one outer) next to each other so that one
\* vertex of each - any vertex, hence also cut positions - lies a single coordinate step (1e-7 degree) from the other:
\* distinct nodes of disjoint rings that are almost the same point.
Siblings(gg) == \E r1, r2 \in 1 .. Len(gg) : r1 # r2 /\ gg[r1].parent = gg[r2].parent

\* vers: a history of the relation with identical member lists.  vers[v][i] says whether member way i is reversed
\* (a new way version with the nodes in opposite order) at relation version v; all versions are annotated in one call.
\* tiny: every ring without holes is 1..5 coordinate steps (1e-7 degree) across, far from lon = lat = 0 (anchors in
\* all four sign quadrants); outers with holes are just large enough to hold tiny holes.
TinyOK(gg) == /\ \A r \in 1 .. Len(gg) : gg[r].n <= 5
              /\ \A X \in Outers(gg) : Cardinality(Holes(gg, X)) <= 2
\* concave: outers with a hole are chevrons (one reflex vertex, a deep notch), their hole is a chevron following the
\* outer so that the middle of the hole's bounding box lies in the notch, outside the hole's own outer; the first
\* outer without holes sits in that notch, around that point.
ConcaveOK(gg) == /\ \A r \in 1 .. Len(gg) : gg[r].n <= 5
                 /\ \A X \in Outers(gg) : Cardinality(Holes(gg, X)) <= 1
                 /\ \E h \in 1 .. Len(gg) : gg[h].parent # 0
                 /\ \A h \in 1 .. Len(gg) : gg[h].parent # 0 => gg[h].n >= 4 /\ gg[gg[h].parent].n >= 4

\* ids: the assignment of node (and way) ids is part of the case.  mode "" = ids of the placement profile; "zero" = the
\* vertex z is the node with id 0, the others small positive; "span" = consecutive ids around 0 (vertex z is 0, lower
\* symbols negative); "neg" = all node ids negative; "i31" / "i32" = node ids straddling 2^31 / 2^32 (vertex z sits exactly
\* on the power of two; way ids start just below it).  z is a vertex of some member way: an end point or an inner node.
IdModes == <<"zero", "", "span", "i31", "neg", "i32", "zero", "">>
IdsOf(ms) == LET a == Len(ms[1].nodes) + Idx(ms[Len(ms)].nodes[1])
                 k == 1 + ((a + Len(ms)) % Len(ms))
                 j == 1 + ((a + Idx(ms[1].nodes[Len(ms[1].nodes)])) % Len(ms[k].nodes))
             IN [mode |-> IdModes[1 + ((a + 3 * Len(ms) + Idx(ms[1].nodes[1])) % Len(IdModes))], z |-> ms[k].nodes[j]]

\* place: which placement the renderer uses: "" (seeded magnitude profile), "grid", "near", "tiny", "concave"
CaseRec(gg, ms, place) ==
  [g |-> gg, members |-> ms, masks |-> MasksOf(ms), vers |-> MasksOf(ms),
   rtype |-> IF Idx(ms[Len(ms)].nodes[1]) % 2 = 1 THEN "multipolygon" ELSE "boundary",
   norder |-> (Idx(ms[1].nodes[1]) + Len(ms)) % 3, place |-> place, ids |-> IdsOf(ms)]

SimCase == LET n == Len(members)
               pl == IF MultiOuterWithHole(g) THEN RandomElement({"grid", "grid", "near", ""})
                     ELSE IF Siblings(g) THEN RandomElement({"grid", "near", ""}) ELSE RandomElement({"grid", ""}) IN
  [g |-> g, members |-> members,
   masks |-> <<NoneMask(n), AllMask(n), RandomElement([1 .. n -> BOOLEAN])>>,
   vers |-> <<NoneMask(n), RandomElement([1 .. n -> BOOLEAN]), RandomElement([1 .. n -> BOOLEAN])>>,
   rtype |-> RandomElement({"multipolygon", "boundary"}), norder |-> RandomElement({0, 1, 2}), place |-> pl,
   ids |-> [mode |-> RandomElement({"zero", "", "span", "i31", "neg", "i32"}), z |-> RandomElement(AllSyms(g))]]

Complete == cutr > Len(g) /\ pool = {}
Write(c) == CSVWrite("%1$s", <<ToJson(c)>>, IOEnv.OUT)
\* the placements are spread deterministically over the cases
Pick == (Idx(members[Len(members)].nodes[1]) + Len(members[1].nodes) + Len(members)) % 4
Tiny == IF TinyOK(g) THEN "tiny" ELSE ""
Conc == IF ConcaveOK(g) THEN "concave" ELSE ""
EmitFile == Complete =>
   IF MultiOuterWithHole(g)        \* two records: grid, and one of near / tiny / concave / profile
   THEN Write(CaseRec(g, members, "grid"))
        /\ Write(CaseRec(g, members, CASE Pick = 0 -> "near" [] Pick = 1 -> Tiny [] Pick = 2 -> Conc [] OTHER -> (IF ConcaveOK(g) THEN "concave" ELSE "")))
   ELSE Write(CaseRec(g, members, CASE Pick = 0 -> "grid" [] Pick = 1 -> Tiny
                                    [] Pick = 2 -> (IF Siblings(g) THEN "near" ELSE Conc) [] OTHER -> Conc))
EmitSim  == Complete => Write(SimCase)
=============================================================================
