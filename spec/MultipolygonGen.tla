--------------------------- MODULE MultipolygonGen ---------------------------
(* C16 case generation: every member list of every shape in Shapes (the completed member lists of the    *)
(* generating machine of Multipolygon.tla), written as ndjson.  The orientation masks, the relation type *)
(* and the node order are spread deterministically over the cases.                                       *)
EXTENDS MultipolygonMC, IOUtils, Json

MasksOf(ms) == LET n == Len(ms) IN
  IF n = 1 THEN <<NoneMask(n), AllMask(n)>>
  ELSE <<NoneMask(n), AllMask(n), IF Idx(ms[1].nodes[1]) % 2 = 0 THEN EvenMask(n) ELSE OddMask(n)>>

CaseRec(gg, ms) == [g |-> gg, members |-> ms, masks |-> MasksOf(ms),
                    rtype |-> IF Idx(ms[Len(ms)].nodes[1]) % 2 = 1 THEN "multipolygon" ELSE "boundary",
                    norder |-> (Idx(ms[1].nodes[1]) + Len(ms)) % 3]

CONSTANTS Slice, NSlices     \* this process writes the combinations with index = Slice (mod NSlices)

SliceOf(gg) == LET cs == SetToSeq(Combos(gg, Len(gg))) IN {cs[i] : i \in {i \in 1 .. Len(cs) : i % NSlices = Slice}}
AllCases == UNION {UNION {{CaseRec(gg, ms) : ms \in OrdersOf(gg, P)} : P \in SliceOf(gg)} : gg \in Shapes}
ASSUME LET A == AllCases IN ndJsonSerialize(IOEnv.OUT, SetToSeq(A)) /\ PrintT(<<"NCASES", Cardinality(A)>>)

JInit0 == g = << >> /\ pat = "" /\ cutr = 0 /\ cuts = {} /\ pool = {} /\ members = << >> /\ run = NoRun /\ st = A0
JNext0 == UNCHANGED vars
=============================================================================
