--------------------------- MODULE MultipolygonGen ---------------------------
(* C16 case generation.  TLC explores the generating machine of Multipolygon.tla (NextGen = AddCut, CloseRing,   *)
(* Place); every completed member list is appended to the file IOEnv.OUT as one JSON line.                       *)
(*   exhaustive: breadth-first search, invariant EmitFile  (every cut / reversal / member order of every shape)   *)
(*   sampled:    -simulate, invariant EmitSim (larger shapes; one random case per behaviour, random mask)         *)
(* The orientation masks, the relation type and the node order are spread deterministically over the cases.     *)
EXTENDS MultipolygonMC, IOUtils, Json, CSV

MasksOf(ms) == LET n == Len(ms) IN
  IF n = 1 THEN <<NoneMask(n), AllMask(n)>>
  ELSE <<NoneMask(n), AllMask(n), IF Idx(ms[1].nodes[1]) % 2 = 0 THEN EvenMask(n) ELSE OddMask(n)>>

CaseRec(gg, ms) == [g |-> gg, members |-> ms, masks |-> MasksOf(ms),
                    rtype |-> IF Idx(ms[Len(ms)].nodes[1]) % 2 = 1 THEN "multipolygon" ELSE "boundary",
                    norder |-> (Idx(ms[1].nodes[1]) + Len(ms)) % 3]

SimCase == LET n == Len(members) IN
  [g |-> g, members |-> members,
   masks |-> <<NoneMask(n), AllMask(n), RandomElement([1 .. n -> BOOLEAN])>>,
   rtype |-> RandomElement({"multipolygon", "boundary"}), norder |-> RandomElement({0, 1, 2})]

Complete == cutr > Len(g) /\ pool = {}
EmitFile == Complete => CSVWrite("%1$s", <<ToJson(CaseRec(g, members))>>, IOEnv.OUT)
EmitSim  == Complete => CSVWrite("%1$s", <<ToJson(SimCase)>>, IOEnv.OUT)
=============================================================================
