--------------------------- MODULE MultipolygonGen ---------------------------
(* C16 case generation.  TLC explores the generating machine of Multipolygon.tla (NextGen = AddCut, CloseRing,   *)
(* Place); every completed member list is appended to the file IOEnv.OUT as one JSON line.                       *)
(*   exhaustive: breadth-first search, invariant EmitFile  (every cut / reversal / member order of every shape)   *)
(*   sampled:    -simulate, invariant EmitSim (larger shapes; one random case per behaviour, random mask)         *)
(* The orientation masks, the relation type and the node order are spread deterministically over the cases.     *)
EXTENDS MultipolygonMC, IOUtils, Json, CSV

MasksOf(ms) == LET n == Len(ms) IN
  IF n = 1 THEN <<NoneMask(n), AllMask(n)>>
  ELSE <<NoneMask(n), AllMask(n), IF Idx(ms[1].nodes[1]) % 2 = 0 THEN EvenMask(n) ELSE OddMask(n)>>

\* grid: the renderer places the vertices on a coarse grid, so that rings share latitudes / longitudes exactly (a
\* hole vertex level with a vertex of another outer).  Shapes with several outers and a hole - where the hole has to
\* be assigned to one of several outers - are emitted under both placements, the other cases under one of them.
MultiOuterWithHole(gg) == Cardinality(Outers(gg)) >= 2 /\ HasHoles(gg)

\* near: the renderer puts two sibling rings (two outers, or two holes of one outer) next to each other so that one
\* vertex of each - any vertex, hence also cut positions - lies a single coordinate step (1e-7 degree) from the other:
\* distinct nodes of disjoint rings that are almost the same point.
Siblings(gg) == \E r1, r2 \in 1 .. Len(gg) : r1 # r2 /\ gg[r1].parent = gg[r2].parent

\* vers: a history of the relation with identical member lists.  vers[v][i] says whether member way i is reversed
\* (a new way version with the nodes in opposite order) at relation version v; all versions are annotated in one call.
CaseRec(gg, ms, grid, near) ==
  [g |-> gg, members |-> ms, masks |-> MasksOf(ms), vers |-> MasksOf(ms),
   rtype |-> IF Idx(ms[Len(ms)].nodes[1]) % 2 = 1 THEN "multipolygon" ELSE "boundary",
   norder |-> (Idx(ms[1].nodes[1]) + Len(ms)) % 3, grid |-> grid, near |-> near]

SimCase == LET n == Len(members)
               gr == IF MultiOuterWithHole(g) THEN RandomElement(1 .. 3) # 3 ELSE RandomElement(BOOLEAN) IN
  [g |-> g, members |-> members,
   masks |-> <<NoneMask(n), AllMask(n), RandomElement([1 .. n -> BOOLEAN])>>,
   vers |-> <<NoneMask(n), RandomElement([1 .. n -> BOOLEAN]), RandomElement([1 .. n -> BOOLEAN])>>,
   rtype |-> RandomElement({"multipolygon", "boundary"}), norder |-> RandomElement({0, 1, 2}),
   grid |-> gr, near |-> ~gr /\ Siblings(g) /\ RandomElement(BOOLEAN)]

Complete == cutr > Len(g) /\ pool = {}
Write(c) == CSVWrite("%1$s", <<ToJson(c)>>, IOEnv.OUT)
\* a deterministic half of the cases
Half == (Idx(members[Len(members)].nodes[1]) + Len(members[1].nodes) + Len(members)) % 2 = 0
EmitFile == Complete =>
   IF MultiOuterWithHole(g) THEN Write(CaseRec(g, members, TRUE, FALSE)) /\ Write(CaseRec(g, members, FALSE, Half))
   ELSE IF Siblings(g) THEN Write(CaseRec(g, members, FALSE, Half))
   ELSE Write(CaseRec(g, members, (Idx(members[Len(members)].nodes[2]) + Len(members[1].nodes)) % 4 = 0, FALSE))
EmitSim  == Complete => Write(SimCase)
=============================================================================
