CONSTANTS FullVals = FALSE FullPool = FALSE AllPairs = FALSE
INIT Init
NEXT Next
INVARIANTS DecodeBackL OrderL
CHECK_DEADLOCK FALSE
