CONSTANTS
  Ids = {1, 2, 3}
  Vers = {1, 2, 3}
  Kinds = {}
  Targets = {}
  VisVals = {}
  Families = {}
  MaxOps = 0
  TagKeys = {}
  TagVals = {}
  RefKinds = {}
  RefVers = {}
  Coords = {}
SPECIFICATION TraceSpec
INVARIANTS Q_Containers Q_Sorted Q_Hist Q_Tags Q_Refs Q_Pure Q_All JudgeOnLog
PROPERTIES JudgeStepsHold Frame
CONSTRAINT HighWater
POSTCONDITION TraceAccepted
CHECK_DEADLOCK FALSE
