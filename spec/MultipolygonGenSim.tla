-------------------------- MODULE MultipolygonGenSim --------------------------
(* C16 sampled case generation for larger shapes: run with `-simulate`; every behaviour of the generating *)
(* machine (NextGen = CutRing \/ Place) ends in one completed member list, printed as a CASE line.        *)
EXTENDS MultipolygonMC, Json

SimCase == LET n == Len(members) IN
  [g |-> g, members |-> members,
   masks |-> <<NoneMask(n), AllMask(n), RandomElement([1 .. n -> BOOLEAN])>>,
   rtype |-> RandomElement({"multipolygon", "boundary"}), norder |-> RandomElement({0, 1, 2})]

EmitCase == (cutr > Len(g) /\ pool = {}) => PrintT(<<"CASE", ToJson(SimCase)>>)
=============================================================================
