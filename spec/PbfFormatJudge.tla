-------------------------- MODULE PbfFormatJudge --------------------------
(* C01 Judge on recorded lines [case |-> [fam, procs, file], runs |-> <<run, ...>>]:                      *)
(* every run (one decoder count, one magnitude profile) must have returned exactly DecodeFile(file) and    *)
(* DecodeHeader(file.header), without error.                                                               *)
(* Header() asked only after the scan finished returns the scanner's sticky end-of-input condition as its  *)
(* error value next to the (correct) header; the property says nothing about that error value, so `herr`   *)
(* is judged only for runs that asked for the header first.                                                *)
EXTENDS PbfFormat, IOUtils, Json
Lines == ndJsonDeserialize(IOEnv.REC)

RunJudged(file, run) == RunOK(file, IF run.hfirst THEN run ELSE [run EXCEPT !.herr = ""])
LineOK(ln) == /\ Len(ln.runs) >= 1
              /\ \A k \in 1 .. Len(ln.runs) : RunJudged(ln.case.file, ln.runs[k])
BadRun(ln) == IF Len(ln.runs) = 0 THEN <<"no run recorded">>
              ELSE LET k == CHOOSE k \in 1 .. Len(ln.runs) : ~RunJudged(ln.case.file, ln.runs[k]) IN
                   RunWhy(ln.case.file, IF ln.runs[k].hfirst THEN ln.runs[k] ELSE [ln.runs[k] EXCEPT !.herr = ""])

ASSUME \A i \in 1 .. Len(Lines) :
          LineOK(Lines[i]) \/ PrintT(<<"BAD", ToJson([i |-> i, why |-> BadRun(Lines[i]), kf |-> {}])>>)
ASSUME PrintT(<<"JUDGED", Len(Lines)>>)
VARIABLE v
JInit == v = 0
JNext == UNCHANGED v
=============================================================================
