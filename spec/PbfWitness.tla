---------------------------- MODULE PbfWitness ----------------------------
(* Deviation witnesses.  For each named deviation of the pinned code that the Model shows to violate a Judge   *)
(* (eofCtx = FALSE, sepErr = FALSE), TLC enumerates the violating behaviours of the *deviating* Model and      *)
(* exports them as step lists [g |-> process, a |-> completion event].  The harness tries to drive the real    *)
(* goroutines along each witness (Go's select picks among ready cases at random, so an attempt is abandoned    *)
(* and retried when a step completes differently).  On a tree that follows the intended design the run ends    *)
(* with Err() = canceled and RunOK holds; on a tree that has (re)acquired the deviation the witness reproduces  *)
(* the Judge failure on the real code.  This binds the exhaustive design-level result to the code for          *)
(* interleavings random walks would need thousands of runs to hit.                                              *)
EXTENDS PbfPipeline, Json
VARIABLE wit
wvars == << vars, wit >>

D(n) == [k |-> "data", n |-> n]
WCfg(n, cap, b, sep, ec) == [n |-> n, cap |-> cap, blocks |-> b, endkind |-> "eof", hdr |-> "ok", stopOnCancel |-> TRUE, sepErr |-> sep, eofCtx |-> ec,
                             allowCancel |-> TRUE, allowClose |-> FALSE, allowHeader |-> FALSE, maxErr |-> 0]
\* capacities as the real code has them: 10 \div n
WitnessConfigs == { WCfg(1, 10, b, TRUE, FALSE) : b \in {<<D(1), D(1)>>, <<D(1), D(0), D(1)>>, <<D(2), D(1)>>} }
                  \cup { WCfg(2, 5, b, TRUE, FALSE) : b \in {<<D(1), D(1)>>, <<D(1), D(1), D(1)>>} }
                  \cup { WCfg(n, 10 \div n, <<D(1), D(0), D(1)>>, FALSE, FALSE) : n \in {1, 2} }

St(g, a) == wit' = Append(wit, [g |-> g, a |-> a])
WitInit == Init /\ wit = << >>
WitNext ==
  \/ (R_First /\ St("r", "r.firstsent")) \/ (R_Read /\ St("r", "r.read")) \/ (R_Exit /\ St("r", "r.loopexit"))
  \/ (R_Sent /\ St("r", "r.sent")) \/ (R_Dropped /\ St("r", "r.dropped"))
  \/ \E w \in Workers : \/ (W_Got(w) /\ St("w" \o ToString(w), "w.got")) \/ (W_InClosed(w) /\ St("w" \o ToString(w), "w.inclosed"))
                        \/ (W_Sent(w) /\ St("w" \o ToString(w), "w.sent")) \/ (W_Dropped(w) /\ St("w" \o ToString(w), "w.dropped"))
  \/ (S_Got /\ St("s", "s.got")) \/ (spc = "recv" /\ S_Done /\ St("s", "s.done1")) \/ (spc = "send" /\ S_Done /\ St("s", "s.done2"))
  \/ (S_Sent /\ St("s", "s.sent")) \/ (S_Exit /\ St("s", "s.exit"))
  \/ (C_Call /\ St("c", "c.scan")) \/ (C_Got /\ St("c", "c.got"))
  \/ (Cancel /\ St("x", "x.cancel"))

\* the witness is a history variable: states are identified without it (one witness per violating state is enough)
WView == << cfg, started, cancelled, parentCancelled, rpc, ri, rpos, rerr, rpair, readsAfterStop,
            inq, inClosed, wpc, wcur, outq, outClosed, spc, sj, scur, tErr,
            serq, serClosed, cpc, cData, cIndex, pOff, cOff, sErr, closed, delivered, lastScan >>
\* explore only up to the first violation; print every violating state's witness
Going == ErrPrecedenceInv
Emit == ErrPrecedenceInv \/ PrintT(<<"CASE", ToJson([kind |-> "witness", cfg |-> [n |-> cfg.n, blocks |-> cfg.blocks, endkind |-> cfg.endkind, hdr |-> cfg.hdr],
                                                      wit |-> wit, delivered |-> delivered])>>)
=============================================================================
