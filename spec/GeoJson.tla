------------------------------ MODULE GeoJson ------------------------------
(* C17 - osmgeojson.Convert maps OSM elements to GeoJSON features exactly; *)
(*       options only subtract; deterministic; input never modified.       *)
(*                                                                         *)
(* Layers (this module holds the first two; TLC evaluates constant          *)
(* definitions eagerly, so the input space lives in GeoJsonSpace.tla and    *)
(* the step machine in GeoJsonMC.tla, and a Judge process pays for neither):*)
(*   Model  - Convert transcribed pass by pass (membership map, relation   *)
(*            pass with the skippable set, way pass, node pass) as pure    *)
(*            step operators and their functional composition             *)
(*            ConvV(ds, O, variant); GeoJsonMC.tla applies the same step   *)
(*            operators as a machine, one element at a time.               *)
(*   Judge  - J_* operators: the listed statement and nothing more, over   *)
(*            an abstract feature list (from the Model or recorded from    *)
(*            the real osmgeojson.Convert).                                *)
(*   Input  - GeoJsonSpace.tla: structured exhaustive families plus a      *)
(*            seeded random sample of the full product space.              *)
(*                                                                         *)
(* Abstract vocabulary (shared with the Go renderer/recorder, which only   *)
(* maps symbols):                                                          *)
(*   node     [id, xy, tags, meta]         xy = <<0,0>>  <=> not located   *)
(*   way      [id, refs, tags, meta]       refs[k] = <<nodeid, x, y>>,     *)
(*                                         (x,y) # (0,0) = annotated ref   *)
(*   relation [id, tags, members, meta]    members[k] = [t, ref, role]     *)
(*   tags     sequence of <<key, value>>, keys unique                      *)
(*   meta     [timestamp, version, changeset, user, uid], 0 = absent       *)
(*   ids      [node, way, relation] |-> id class: how the renderer maps the *)
(*            small abstract ids of that type to concrete ids ("small" k,   *)
(*            "i31" around 2^31, "i32" around 2^32, "top40" 2^40-k,         *)
(*            "neg" -k, "at40" 2^40+k-1, "over40" 2^40+7+k-1)               *)
(*   feature  [fid, t, id, g, c, hastags, tags, hasmeta, meta, hasrels,    *)
(*             rels, tainted, xkeys]                                       *)
EXTENDS Integers, Sequences, FiniteSets, TLC, SequencesExt

(* ======================================================================= *)
(* Vocabulary                                                              *)
(* ======================================================================= *)
Options == {"NoID", "NoMeta", "NoRM", "IIP"}
\* NoRM = NoRelationMembership, IIP = IncludeInvalidPolygons.  The 16 option sets, in a fixed order:
OptSeqs == << <<>>, <<"NoID">>, <<"NoMeta">>, <<"NoRM">>, <<"IIP">>,
              <<"NoID", "NoMeta">>, <<"NoID", "NoRM">>, <<"NoID", "IIP">>, <<"NoMeta", "NoRM">>,
              <<"NoMeta", "IIP">>, <<"NoRM", "IIP">>, <<"NoID", "NoMeta", "NoRM">>, <<"NoID", "NoMeta", "IIP">>,
              <<"NoID", "NoRM", "IIP">>, <<"NoMeta", "NoRM", "IIP">>, <<"NoID", "NoMeta", "NoRM", "IIP">> >>
OptSets == {ToSet(OptSeqs[i]) : i \in DOMAIN OptSeqs}

\* the documented list of uninteresting tags (osmtogeojson README / index.js "uninterestingTags", which tag.go
\* mirrors): pinned here, not read from the library
Unint == {"source", "source_ref", "source:ref", "history", "attribution", "created_by",
          "tiger:county", "tiger:tlid", "tiger:upload_uuid"}

ZeroMeta == [timestamp |-> 0, version |-> 0, changeset |-> 0, user |-> 0, uid |-> 0]
Zero == <<0, 0>>

TagSet(tags) == {tags[i] : i \in DOMAIN tags}
HasKey(tags, k) == \E i \in DOMAIN tags : tags[i][1] = k
\* Tags.Find: the value of the first tag with that key, "" if there is none
TagVal(tags, k) == IF HasKey(tags, k) THEN tags[CHOOSE i \in DOMAIN tags : tags[i][1] = k /\ \A j \in 1 .. i - 1 : tags[j][1] # k][2] ELSE ""

(* ---- "area ways": the polygon-features rules of C18.  The table is the one of PolygonRules.tla;  *)
(*      it is repeated here only because TLC evaluates every constant definition of an instantiated *)
(*      module eagerly (PolygonRules' input space costs seconds per TLC start).  GeoJsonMC.tla      *)
(*      instantiates PolygonRules and ASSUMEs that table and rule are identical.                    *)
AreaRule(kind, vals) == [kind |-> kind, vals |-> vals]
AreaTable ==
  [ building         |-> AreaRule("all", {}),
    highway          |-> AreaRule("whitelist", {"services", "rest_area", "escape", "elevator"}),
    natural          |-> AreaRule("blacklist", {"coastline", "cliff", "ridge", "arete", "tree_row"}),
    landuse          |-> AreaRule("all", {}),
    waterway         |-> AreaRule("whitelist", {"riverbank", "dock", "boatyard", "dam"}),
    amenity          |-> AreaRule("all", {}),
    leisure          |-> AreaRule("all", {}),
    barrier          |-> AreaRule("whitelist", {"city_wall", "ditch", "hedge", "retaining_wall", "wall", "spikes"}),
    railway          |-> AreaRule("whitelist", {"station", "turntable", "roundhouse", "platform"}),
    boundary         |-> AreaRule("all", {}),
    man_made         |-> AreaRule("blacklist", {"cutline", "embankment", "pipeline"}),
    power            |-> AreaRule("whitelist", {"plant", "substation", "generator", "transformer"}),
    place            |-> AreaRule("all", {}),
    shop             |-> AreaRule("all", {}),
    aeroway          |-> AreaRule("blacklist", {"taxiway"}),
    tourism          |-> AreaRule("all", {}),
    historic         |-> AreaRule("all", {}),
    public_transport |-> AreaRule("all", {}),
    office           |-> AreaRule("all", {}),
    military         |-> AreaRule("all", {}),
    ruins            |-> AreaRule("all", {}),
    craft            |-> AreaRule("all", {}),
    golf             |-> AreaRule("all", {}),
    indoor           |-> AreaRule("all", {}) ]
   @@ ("building:part" :> AreaRule("all", {}))
   @@ ("area:highway"  :> AreaRule("all", {}))
AreaPasses(k, v) ==
  /\ v # "" /\ v # "no"
  /\ CASE AreaTable[k].kind = "all"       -> TRUE
       [] AreaTable[k].kind = "whitelist" -> v \in AreaTable[k].vals
       [] AreaTable[k].kind = "blacklist" -> v \notin AreaTable[k].vals
TagsSayArea(tags) ==
  LET a == TagVal(tags, "area") IN
  IF a = "no" THEN FALSE
  ELSE IF a # "" THEN TRUE
  ELSE \E k \in DOMAIN AreaTable : AreaPasses(k, TagVal(tags, k))
WayIsArea(nrefs, closed, tags) == nrefs > 3 /\ closed /\ TagsSayArea(tags)

\* "has an interesting tag" (statement; tag.go): a tag whose key is not one of the uninteresting keys.
\* A tag with an empty value is still a tag.
HasInterestingTag(tags) == \E i \in DOMAIN tags : tags[i][1] \notin Unint
\* hasInterestingTags(tags, nil)
InterestingNil(tags) == HasInterestingTag(tags)
\* hasInterestingTags(tags, ignore) with a non-nil ignore map `ign` (a tag list with unique keys): a tag is
\* passed over when ignore[k] == "true" or ignore[k] == v; Go's lookup of an absent key yields "", so a tag
\* with an EMPTY value whose key is absent from the map is passed over too (transcribed as the code has it).
InterestingBut(tags, ign) ==
  \E i \in DOMAIN tags :
     /\ tags[i][1] \notin Unint
     /\ ~(TagVal(ign, tags[i][1]) = "true" \/ TagVal(ign, tags[i][1]) = tags[i][2])

HasNode(ds, id) == \E i \in DOMAIN ds.nodes : ds.nodes[i].id = id
HasWay(ds, id)  == \E i \in DOMAIN ds.ways  : ds.ways[i].id = id
HasRel(ds, id)  == \E i \in DOMAIN ds.rels  : ds.rels[i].id = id
NodeOf(ds, id)  == ds.nodes[CHOOSE i \in DOMAIN ds.nodes : ds.nodes[i].id = id]
WayOf(ds, id)   == ds.ways[CHOOSE i \in DOMAIN ds.ways : ds.ways[i].id = id]
RelOf(ds, id)   == ds.rels[CHOOSE i \in DOMAIN ds.rels : ds.rels[i].id = id]
HasElem(ds, t, id) == CASE t = "node" -> HasNode(ds, id) [] t = "way" -> HasWay(ds, id)
                        [] t = "relation" -> HasRel(ds, id) [] OTHER -> FALSE
ElemOf(ds, t, id)  == CASE t = "node" -> NodeOf(ds, id) [] t = "way" -> WayOf(ds, id) [] OTHER -> RelOf(ds, id)

Kind(r) == TagVal(r.tags, "type")
IsRoute(r) == Kind(r) = "route"
IsPoly(r)  == Kind(r) \in {"multipolygon", "boundary"}
WayMemberOf(r, wid) == \E j \in DOMAIN r.members : r.members[j].t = "way" /\ r.members[j].ref = wid

InSomeWay(ds, nid) == \E i \in DOMAIN ds.ways : \E k \in DOMAIN ds.ways[i].refs : ds.ways[i].refs[k][1] = nid
IsMember(ds, t, id) == \E i \in DOMAIN ds.rels : \E j \in DOMAIN ds.rels[i].members :
                          ds.rels[i].members[j].t = t /\ ds.rels[i].members[j].ref = id

\* the way's resolvable node coordinates, in order: an annotated ref carries its own
\* coordinates, otherwise the node of that id in the data set supplies them, otherwise nothing
RefXY(ds, ref) == IF <<ref[2], ref[3]>> # Zero THEN << <<ref[2], ref[3]>> >>
                  ELSE IF HasNode(ds, ref[1]) THEN << NodeOf(ds, ref[1]).xy >> ELSE << >>
LS(ds, w) == FlattenSeq([k \in DOMAIN w.refs |-> RefXY(ds, w.refs[k])])
Tainted(ds, w) == \E k \in DOMAIN w.refs : RefXY(ds, w.refs[k]) = << >>

IsAreaWay(w) == Len(w.refs) > 0 /\ WayIsArea(Len(w.refs), w.refs[1][1] = w.refs[Len(w.refs)][1], w.tags)

FidOf(t, id) == t \o "/" \o ToString(id)

(* ---- planar geometry on the abstract integer grid (the renderer applies an *)
(*      orientation-preserving scaling, so signs carry over)                  *)
Cross(o, a, b) == (a[1] - o[1]) * (b[2] - o[2]) - (b[1] - o[1]) * (a[2] - o[2])
\* orb.Ring.Orientation: fan around r[1]; 1 = CCW, -1 = CW, 0 = degenerate
FanArea2(r) == IF Len(r) < 3 THEN 0
               ELSE LET S[i \in 1 .. Len(r) - 1] == IF i = 1 THEN 0 ELSE S[i - 1] + Cross(r[1], r[i], r[i + 1])
                    IN S[Len(r) - 1]
Sign(x) == IF x > 0 THEN 1 ELSE IF x < 0 THEN -1 ELSE 0
Orient(r) == Sign(FanArea2(r))
\* textbook shoelace of a closed ring (used by the Judge only)
Shoelace2(r) == IF Len(r) < 2 THEN 0
                ELSE LET S[i \in 0 .. Len(r) - 1] ==
                           IF i = 0 THEN 0 ELSE S[i - 1] + (r[i][1] * r[i + 1][2] - r[i + 1][1] * r[i][2])
                     IN S[Len(r) - 1]

(* ======================================================================= *)
(* Model: Convert, pass by pass                                            *)
(* ======================================================================= *)
\* ---- id classes.  osm.FeatureID packs the type into the top byte and the id into 40 bits below it
\* (feature.go: refMask, typeMask): ids 1 .. 2^40-1 fit, negative ids and ids >= 2^40 do not.
IdClasses == {"small", "i31", "i32", "top40", "neg", "at40", "over40"}
Fits(c) == c \in {"small", "i31", "i32", "top40"}
SmallIds == [node |-> "small", way |-> "small", relation |-> "small"]
\* The tree as it is keys the membership map by FeatureID (convert.go:83-88, 305): for a negative id the shifted
\* id sets every bit of the type byte, so node -k, way -k and relation -k share one key; ids >= 2^40 spill into
\* the type byte but stay distinct per type within the id classes used here.
KeyOf(ds, t, id) == IF ds.ids[t] = "neg" THEN <<"neg", id>> ELSE <<t, id>>
\* What Convert is meant to do does not depend on the id class: the ideal variant of the Model is the Model on
\* the same data set with ids that fit.
Ideal(ds) == [ds EXCEPT !.ids = SmallIds]

\* a membership entry of the marshalled GeoJSON has exactly these keys (an empty role is still a role)
MembershipKeys == <<"id", "role", "tags">>
\* ---- membership map (convert.go:59-90)
Flat(ds) == FlattenSeq([i \in DOMAIN ds.rels |->
                          [j \in DOMAIN ds.rels[i].members |-> <<ds.rels[i], ds.rels[i].members[j]>>]])
Memberships(ds, O, t, id) ==
  LET sel == SelectSeq(Flat(ds), LAMBDA p : /\ KeyOf(ds, p[2].t, p[2].ref) = KeyOf(ds, t, id)
                                            /\ ("NoRM" \in O => p[2].t = "node")
                                            /\ (p[2].t = "way" => HasWay(ds, p[2].ref)))
  IN [k \in DOMAIN sel |-> [id |-> sel[k][1].id, role |-> sel[k][2].role, tags |-> sel[k][1].tags, keys |-> MembershipKeys]]

\* ---- feature construction + addMetaProperties (convert.go:165-183, 201-231, 303-387)
Feat(ds, O, t, e, g, c, tags, tainted) ==
  [fid |-> IF "NoID" \in O THEN "" ELSE FidOf(t, e.id), t |-> t, id |-> e.id, g |-> g, c |-> c,
   hastags |-> TRUE, tags |-> tags,
   hasmeta |-> "NoMeta" \notin O, meta |-> IF "NoMeta" \in O THEN ZeroMeta ELSE e.meta,
   hasrels |-> "NoRM" \notin O, rels |-> IF "NoRM" \in O THEN << >> ELSE Memberships(ds, O, t, e.id),
   tainted |-> tainted, xkeys |-> << >>]
\* buildPolygon takes type and id of its feature from FeatureID().Type() / .Ref() (build_polygon.go:162-169):
\* for an id that does not fit, the type comes out empty and the id is the low 40 bits ("?" / -1 for the recorder)
PolyFeat(ds, O, t, e, g, c, tags, tainted) ==
  LET f == Feat(ds, O, t, e, g, c, tags, tainted) IN
  IF Fits(ds.ids[t]) THEN f ELSE [f EXCEPT !.fid = IF "NoID" \in O THEN "" ELSE "?", !.t = "", !.id = -1]

\* ---- mputil.Join (internal/mputil/join.go), lines only: segment flags play no role without
\*      member orientation.  `cur` is the concatenation of the current group's lines.
MatchKind(cur, s) == IF cur[Len(cur)] = s[1] THEN 1
                     ELSE IF cur[Len(cur)] = s[Len(s)] THEN 2
                     ELSE IF cur[1] = s[Len(s)] THEN 3
                     ELSE IF cur[1] = s[1] THEN 4 ELSE 0
RECURSIVE Grow(_, _)
Grow(cur, segs) ==
  IF segs = << >> \/ cur[1] = cur[Len(cur)] THEN <<cur, segs>>
  ELSE LET hits == {i \in DOMAIN segs : MatchKind(cur, segs[i]) # 0} IN
       IF hits = {} THEN <<cur, segs>>                     \* dangling way / unclosed ring
       ELSE LET i == CHOOSE x \in hits : \A y \in hits : x <= y
                s == segs[i]
                k == MatchKind(cur, s)
                ncur == CASE k = 1 -> cur \o Tail(s)
                          [] k = 2 -> cur \o Tail(Reverse(s))
                          [] k = 3 -> Front(s) \o cur
                          [] k = 4 -> Front(Reverse(s)) \o cur
            IN Grow(ncur, RemoveAt(segs, i))
RECURSIVE JoinR(_)
JoinR(segs) == IF segs = << >> THEN << >>
               ELSE LET g == Grow(segs[Len(segs)], Front(segs)) IN <<g[1]>> \o JoinR(g[2])
Join(lines) == JoinR(SelectSeq(lines, LAMBDA l : Len(l) > 1))    \* compact drops lines of <= 1 point

\* MultiSegment.Ring(o) without member orientation
RingOf(line, o) == IF Orient(line) # o THEN Reverse(line) ELSE line
ToRing(ls) == IF Len(ls) < 2 THEN ls ELSE IF ls[1] # ls[Len(ls)] THEN Append(ls, ls[1]) ELSE ls
Reorient1(ring) == IF Orient(ring) # 1 THEN Reverse(ring) ELSE ring

NoResult == [feat |-> << >>, skip |-> {}, used |-> {}]

\* ---- buildRouteLineString (convert.go:233-301)
RouteResult(ds, O, r) ==
  LET wm      == SelectSeq(r.members, LAMBDA m : m.t = "way")
      pres    == SelectSeq(wm, LAMBDA m : HasWay(ds, m.ref))
      tainted == \/ \E j \in DOMAIN wm : ~HasWay(ds, wm[j].ref)
                 \/ \E j \in DOMAIN pres : Tainted(ds, WayOf(ds, pres[j].ref))
      skip    == {pres[j].ref : j \in {j \in DOMAIN pres : ~InterestingNil(WayOf(ds, pres[j].ref).tags)}}
      all     == [j \in DOMAIN pres |-> LS(ds, WayOf(ds, pres[j].ref))]
      lines   == SelectSeq(all, LAMBDA l : Len(l) > 0)
      secs    == Join(lines)
  IN IF lines = << >> THEN [feat |-> << >>, skip |-> skip, used |-> {}]
     ELSE [feat |-> << Feat(ds, O, "relation", r,
                            IF Len(secs) = 1 THEN "LineString" ELSE "MultiLineString",
                            IF Len(secs) = 1 THEN secs[1] ELSE secs, r.tags, tainted) >>,
           skip |-> skip, used |-> {}]

\* ---- buildPolygon (build_polygon.go:12-216).  Ring assembly proper is C16's business; the
\*      transcription covers the input space used here (<= 2 inner/outer way members, no member
\*      orientation, no member way-node lists), in which polygonContains is only ever asked
\*      about an empty outer ring.
Unmodelled == "Unmodelled"       \* geometry kind of a result outside the transcribed part (never reached in the input space)
\* addToMultiPolygon when no polygon of mp has a non-empty outer ring containing `ring`
AddToMP(mp, ring, iip) ==
  IF ~iip THEN mp                                            \* inner without its outer
  ELSE IF Len(mp) > 0 /\ Len(mp[1][1]) # 0 /\ mp[1][1][1] # mp[1][1][Len(mp[1][1])]
       THEN [mp EXCEPT ![1] = Append(@, ring)]
  ELSE IF \E i \in DOMAIN mp : Len(mp[i][1]) = 0
       THEN LET i == CHOOSE x \in DOMAIN mp : Len(mp[x][1]) = 0 /\ \A y \in DOMAIN mp : Len(mp[y][1]) = 0 => x <= y
            IN [mp EXCEPT ![i] = Append(@, ring)]
  ELSE Append(mp, << << >>, ring >>)
\* `used` = the ways already rendered under their own identity by earlier relations; `fixed` selects
\* the variant of the Model: FALSE = the tree before commit 626c4a8 (such a way is rendered again, see KF_SharedOldStyleOuter),
\* TRUE = what it is meant to do (fixes/C17-shared-outer.diff: a later relation keeps its own identity).
PolyResult(ds, O, r, used, fixed) ==
  LET iip     == "IIP" \in O
      wm      == SelectSeq(r.members, LAMBDA m : m.t = "way" /\ m.role \in {"inner", "outer"})
      outerCount == Cardinality({j \in DOMAIN wm : wm[j].role = "outer"})
      pres    == SelectSeq(wm, LAMBDA m : HasWay(ds, m.ref))
      tainted == \/ \E j \in DOMAIN wm : ~HasWay(ds, wm[j].ref)
                 \/ \E j \in DOMAIN pres : Tainted(ds, WayOf(ds, pres[j].ref))
      skip0   == {pres[j].ref : j \in {j \in DOMAIN pres :
                     IF pres[j].role = "outer" THEN ~InterestingBut(WayOf(ds, pres[j].ref).tags, r.tags)
                                               ELSE ~InterestingNil(WayOf(ds, pres[j].ref).tags)}}
      nonempty == SelectSeq(pres, LAMBDA m : Len(LS(ds, WayOf(ds, m.ref))) > 0)
      om      == SelectSeq(nonempty, LAMBDA m : m.role = "outer")
      im      == SelectSeq(nonempty, LAMBDA m : m.role = "inner")
      outer   == [j \in DOMAIN om |-> LS(ds, WayOf(ds, om[j].ref))]
      inner   == [j \in DOMAIN im |-> LS(ds, WayOf(ds, im[j].ref))]
      isecs   == Join(inner)
  IN
  IF outer = << >> /\ ~iip THEN [feat |-> << >>, skip |-> skip0, used |-> {}]
  ELSE IF Len(outer) = 1 /\ outerCount = 1 THEN
       \* "old style" multipolygon: one outer way
       LET ring == RingOf(outer[1], 1) IN
       IF Len(ring) < 4 \/ ring[1] # ring[Len(ring)] THEN [feat |-> << >>, skip |-> skip0, used |-> {}]
       ELSE LET poly == <<ring>> \o [k \in DOMAIN isecs |-> RingOf(isecs[k], -1)]
                ow   == WayOf(ds, om[1].ref)
                old  == ~InterestingBut(r.tags, << <<"type", "true">> >>)
            IN IF old /\ ~(fixed /\ ow.id \in used)
               THEN [feat |-> << PolyFeat(ds, O, "way", ow, "Polygon", poly, ow.tags, tainted) >>, skip |-> skip0 \cup {ow.id}, used |-> {ow.id}]
               ELSE [feat |-> << PolyFeat(ds, O, "relation", r, "Polygon", poly, r.tags, tainted) >>, skip |-> skip0, used |-> {}]
  ELSE LET osecs == Join(outer)
           rings == [k \in DOMAIN osecs |-> RingOf(osecs[k], 1)]
           good  == SelectSeq(rings, LAMBDA g : iip \/ (Len(g) >= 4 /\ g[1] = g[Len(g)]))
           mp0   == [k \in DOMAIN good |-> <<good[k]>>]
       IN IF mp0 = << >> /\ ~iip THEN [feat |-> << >>, skip |-> skip0, used |-> {}]
          ELSE LET irings == [k \in DOMAIN isecs |-> RingOf(isecs[k], -1)]
                   mp == FoldLeft(LAMBDA acc, g : AddToMP(acc, g, iip), mp0, irings)
               IN IF mp0 # << >> /\ irings # << >>
                  THEN [feat |-> << PolyFeat(ds, O, "relation", r, Unmodelled, << >>, r.tags, tainted) >>, skip |-> skip0, used |-> {}]
                  ELSE IF mp = << >> THEN [feat |-> << >>, skip |-> skip0, used |-> {}]
                  ELSE [feat |-> << PolyFeat(ds, O, "relation", r,
                                         IF Len(mp) = 1 THEN "Polygon" ELSE "MultiPolygon",
                                         IF Len(mp) = 1 THEN mp[1] ELSE mp, r.tags, tainted) >>,
                        skip |-> skip0, used |-> {}]

\* ---- relation pass, one relation (convert.go:95-110)
RelResult(ds, O, r, used, fixed) ==
  IF IsRoute(r) THEN RouteResult(ds, O, r)
  ELSE IF IsPoly(r) THEN PolyResult(ds, O, r, used, fixed)
  ELSE NoResult                   \* other relations are not rendered

\* ---- way pass, one way (convert.go:112-122, wayToFeature)
WayResult(ds, O, skip, w) ==
  IF w.id \in skip THEN << >>
  ELSE LET ls == LS(ds, w) IN
       IF Len(ls) <= 1 THEN << >>                        \* one node ways are ignored
       ELSE IF IsAreaWay(w)
            THEN << Feat(ds, O, "way", w, "Polygon", << Reorient1(ToRing(ls)) >>, w.tags, Tainted(ds, w)) >>
            ELSE << Feat(ds, O, "way", w, "LineString", ls, w.tags, Tainted(ds, w)) >>

\* ---- node pass, one node (convert.go:124-143, nodeToFeature)
NodeResult(ds, O, n) ==
  IF InSomeWay(ds, n.id) /\ Memberships(ds, O, "node", n.id) = << >> /\ ~InterestingNil(n.tags) THEN << >>
  ELSE IF n.xy = Zero /\ n.meta.version = 0 THEN << >>        \* "our definition of empty"
  ELSE << Feat(ds, O, "node", n, "Point", n.xy, n.tags, FALSE) >>

\* ---- functional composition
RelPass(ds, O, fixed) ==
  FoldLeft(LAMBDA acc, r : LET x == RelResult(ds, O, r, acc.used, fixed) IN
                           [feats |-> acc.feats \o x.feat, skip |-> acc.skip \cup x.skip, used |-> acc.used \cup x.used],
           [feats |-> << >>, skip |-> {}, used |-> {}], ds.rels)
ConvV(ds, O, fixed) ==
  LET rp == RelPass(ds, O, fixed)
      wp == FoldLeft(LAMBDA acc, w : acc \o WayResult(ds, O, rp.skip, w), rp.feats, ds.ways)
  IN FoldLeft(LAMBDA acc, n : acc \o NodeResult(ds, O, n), wp, ds.nodes)
\* Since fixes b715ff7 / 51b669e the tree no longer routes identity and membership through FeatureID: it behaves the
\* same for every id class.  ConvFormer keeps the transcription of the tree before those fixes (KeyOf, PolyFeat).
ConvFormer(ds, O) == ConvV(ds, O, TRUE)
ConvIdeal(ds, O)  == ConvV(Ideal(ds), O, TRUE)
Conv(ds, O)       == ConvIdeal(ds, O)        \* the tree as it is

(* ======================================================================= *)
(* Judge: the statement, over a feature list F for data set ds, options O  *)
(* ======================================================================= *)
\* equality of abstract features (tag lists are maps: compared as sets)
RelsNorm(rels) == [k \in DOMAIN rels |-> [id |-> rels[k].id, role |-> rels[k].role, tags |-> TagSet(rels[k].tags), keys |-> rels[k].keys]]
FeatEq(a, b) ==
  /\ a.fid = b.fid /\ a.t = b.t /\ a.id = b.id /\ a.g = b.g /\ a.c = b.c
  /\ a.hastags = b.hastags /\ TagSet(a.tags) = TagSet(b.tags)
  /\ a.hasmeta = b.hasmeta /\ a.meta = b.meta
  /\ a.hasrels = b.hasrels /\ RelsNorm(a.rels) = RelsNorm(b.rels)
  /\ a.tainted = b.tainted /\ a.xkeys = b.xkeys
FeatsEq(F, G) == Len(F) = Len(G) /\ \A i \in DOMAIN F : FeatEq(F[i], G[i])

Known(ds, f) == HasElem(ds, f.t, f.id)

\* "at most one feature per input element": every feature is the feature of an element of
\* the input (identified by the type and id it carries), and no two are of the same element
J_AtMostOne(ds, F) ==
  /\ \A i \in DOMAIN F : Known(ds, F[i])
  /\ \A i, j \in DOMAIN F : i < j => <<F[i].t, F[i].id>> # <<F[j].t, F[j].id>>

\* "carrying the element's type, id, tags"; the GeoJSON feature id is what NoID documents
J_Carries(ds, O, F) ==
  \A i \in DOMAIN F : Known(ds, F[i]) =>
     LET e == ElemOf(ds, F[i].t, F[i].id) IN
     /\ F[i].hastags /\ TagSet(F[i].tags) = TagSet(e.tags)
     /\ ("NoID" \notin O => F[i].fid = FidOf(F[i].t, F[i].id))

\* "and, unless disabled, its metadata and relation memberships".  Memberships are a bag of
\* (relation id, role, relation tags), one per member entry referring to the element; the
\* statement fixes no order.
MembershipBag(ds, t, id) ==
  LET sel == SelectSeq(Flat(ds), LAMBDA p : p[2].t = t /\ p[2].ref = id)
  IN [k \in DOMAIN sel |-> [id |-> sel[k][1].id, role |-> sel[k][2].role, tags |-> TagSet(sel[k][1].tags), keys |-> MembershipKeys]]
Count(s, x) == Cardinality({k \in DOMAIN s : s[k] = x})
BagEq(s1, s2) == Len(s1) = Len(s2) /\ \A k \in DOMAIN s1 : Count(s1, s1[k]) = Count(s2, s1[k])
J_MetaMembership(ds, O, F) ==
  \A i \in DOMAIN F : Known(ds, F[i]) =>
     LET e == ElemOf(ds, F[i].t, F[i].id) IN
     /\ ("NoMeta" \notin O => F[i].hasmeta /\ F[i].meta = e.meta)
     /\ ("NoRM" \notin O => F[i].hasrels /\ BagEq(RelsNorm(F[i].rels), MembershipBag(ds, F[i].t, F[i].id)))

\* "a point for every located node that is not part of a way, or has an interesting tag, or is
\* a relation member" - read as the exact mapping of the title: those located nodes get a point
\* at their coordinates, and a node feature is a point of a node satisfying the condition.
\* Silent on whether a node without a location that satisfies the condition is emitted.
NodeCond(ds, n) == ~InSomeWay(ds, n.id) \/ HasInterestingTag(n.tags) \/ IsMember(ds, "node", n.id)
J_NodeRule(ds, F) ==
  /\ \A k \in DOMAIN ds.nodes : (ds.nodes[k].xy # Zero /\ NodeCond(ds, ds.nodes[k])) =>
        \E i \in DOMAIN F : F[i].t = "node" /\ F[i].id = ds.nodes[k].id
  /\ \A i \in DOMAIN F : (F[i].t = "node" /\ HasNode(ds, F[i].id)) =>
        LET n == NodeOf(ds, F[i].id) IN F[i].g = "Point" /\ F[i].c = n.xy /\ NodeCond(ds, n)

\* "a line, or for area ways a closed correctly wound polygon, with the way's resolvable node
\* coordinates in order".  Silent about ways that are members of multipolygon/boundary relations
\* (osmtogeojson renders those as part of the relation, possibly under the way's identity) and
\* about the presence of route member ways that have no interesting tag (rendered as part of the
\* route only).  A way with an interesting tag of its own that is not part of a polygon relation
\* must have its feature - otherwise the element's tags appear nowhere in the output.
InPolyRel(ds, wid)     == \E i \in DOMAIN ds.rels : IsPoly(ds.rels[i]) /\ WayMemberOf(ds.rels[i], wid)
InRouteRel(ds, wid)    == \E i \in DOMAIN ds.rels : IsRoute(ds.rels[i]) /\ WayMemberOf(ds.rels[i], wid)
InRenderedRel(ds, wid) == InPolyRel(ds, wid) \/ InRouteRel(ds, wid)
WayFeatureDue(ds, w)   == /\ Len(LS(ds, w)) >= 2 /\ ~InPolyRel(ds, w.id)
                          /\ (InRouteRel(ds, w.id) => HasInterestingTag(w.tags))
CloseSeq(s) == IF Len(s) >= 1 /\ s[1] # s[Len(s)] THEN Append(s, s[1]) ELSE s
J_WayGeometry(ds, F) ==
  /\ \A k \in DOMAIN ds.ways : WayFeatureDue(ds, ds.ways[k]) =>
        \E i \in DOMAIN F : F[i].t = "way" /\ F[i].id = ds.ways[k].id
  /\ \A i \in DOMAIN F : (F[i].t = "way" /\ HasWay(ds, F[i].id) /\ ~InPolyRel(ds, F[i].id)) =>
        LET w == WayOf(ds, F[i].id)
            res == LS(ds, w)
        IN IF IsAreaWay(w)
           THEN /\ F[i].g = "Polygon" /\ Len(F[i].c) = 1
                /\ LET ring == F[i].c[1] IN
                   /\ Len(ring) >= 2 /\ ring[1] = ring[Len(ring)]               \* closed
                   /\ Shoelace2(ring) >= 0                                      \* exterior ring counter-clockwise
                   /\ (ring = CloseSeq(res) \/ ring = Reverse(CloseSeq(res)))   \* the coordinates, in order
           ELSE F[i].g = "LineString" /\ F[i].c = res

\* "for route relations a joined line geometry that preserves every segment of its member ways"
SegIn(lines, p, q) == \E a \in DOMAIN lines : \E k \in 1 .. Len(lines[a]) - 1 :
                         \/ (lines[a][k] = p /\ lines[a][k + 1] = q)
                         \/ (lines[a][k] = q /\ lines[a][k + 1] = p)
EndCount(lines, p) == Cardinality({a \in DOMAIN lines : lines[a][1] = p}) +
                      Cardinality({a \in DOMAIN lines : lines[a][Len(lines[a])] = p})
\* joined: two different lines of the result meet end to end only at junctions of three or more
\* line ends (where a greedy join necessarily leaves one over); every line has two points or more
Joined(lines) ==
  /\ \A a \in DOMAIN lines : Len(lines[a]) >= 2
  /\ \A a, b \in DOMAIN lines : a < b =>
        \A p \in {lines[a][1], lines[a][Len(lines[a])]} \cap {lines[b][1], lines[b][Len(lines[b])]} :
           EndCount(lines, p) >= 3
MemberWays(ds, r) == LET pres == SelectSeq(r.members, LAMBDA m : m.t = "way" /\ HasWay(ds, m.ref))
                     IN [j \in DOMAIN pres |-> WayOf(ds, pres[j].ref)]
J_Route(ds, F) ==
  /\ \A k \in DOMAIN ds.rels : (IsRoute(ds.rels[k]) /\ \E j \in DOMAIN MemberWays(ds, ds.rels[k]) :
                                   Len(LS(ds, MemberWays(ds, ds.rels[k])[j])) >= 2) =>
        \E i \in DOMAIN F : F[i].t = "relation" /\ F[i].id = ds.rels[k].id
  /\ \A i \in DOMAIN F : (F[i].t = "relation" /\ HasRel(ds, F[i].id) /\ IsRoute(RelOf(ds, F[i].id))) =>
        LET mw == MemberWays(ds, RelOf(ds, F[i].id)) IN
        /\ F[i].g \in {"LineString", "MultiLineString"}
        /\ LET lines == IF F[i].g = "LineString" THEN << F[i].c >> ELSE F[i].c IN
           /\ \A j \in DOMAIN mw : LET res == LS(ds, mw[j]) IN
                 \A k \in 1 .. Len(res) - 1 : SegIn(lines, res[k], res[k + 1])       \* every segment preserved
           /\ Joined(lines)
           /\ \A a \in DOMAIN lines : \A k \in 1 .. Len(lines[a]) - 1 :                 \* made of the ways' segments only
                 \E j \in DOMAIN mw : SegIn(<< LS(ds, mw[j]) >>, lines[a][k], lines[a][k + 1])

\* "each option changes only what it documents" (options.go).  R maps each option set to the
\* feature list obtained under it.
\*   NoID  - "omit setting the geojson feature.ID"
\*   NoMeta - "omit the meta ... info from the output geojson feature properties"
\*   NoRM  - "omit the list of relations an element is a member of"
\*   IIP   - "will return a polygon with nil outer/first ring if the outer ring is not found in the data.
\*            It may also return rings whose endpoints do not match" - so it may only add or alter
\*            features of multipolygon/boundary relations, and removes nothing.
Strip(S, f) == [f EXCEPT !.fid = IF "NoID" \in S THEN "" ELSE @,
                         !.hasmeta = IF "NoMeta" \in S THEN FALSE ELSE @,
                         !.meta = IF "NoMeta" \in S THEN ZeroMeta ELSE @,
                         !.hasrels = IF "NoRM" \in S THEN FALSE ELSE @,
                         !.rels = IF "NoRM" \in S THEN << >> ELSE @]
StripAll(S, F) == [i \in DOMAIN F |-> Strip(S, F[i])]
IsPolyRelFeat(ds, f) == f.t = "relation" /\ HasRel(ds, f.id) /\ IsPoly(RelOf(ds, f.id))
J_Options(ds, R) ==
  /\ \A O \in OptSets : FeatsEq(R[O], StripAll(O \ {"IIP"}, R[O \cap {"IIP"}]))
  /\ LET keep(F) == SelectSeq(F, LAMBDA f : ~IsPolyRelFeat(ds, f)) IN
     /\ FeatsEq(keep(R[{"IIP"}]), keep(R[{}]))
     /\ \A i \in DOMAIN R[{}] : IsPolyRelFeat(ds, R[{}][i]) =>
           \E j \in DOMAIN R[{"IIP"}] : R[{"IIP"}][j].t = "relation" /\ R[{"IIP"}][j].id = R[{}][i].id

\* ---- known finding (genuine defect of the originally pinned tree, fixed by 626c4a8, see notes/C17.md):
\* two or more multipolygon/boundary relations without interesting tags of their own use the
\* same way as their single outer ring; each is rendered under the way's identity, so the way
\* gets several features.
OldStyleOuterOf(ds, r) ==
  LET wm == SelectSeq(r.members, LAMBDA m : m.t = "way" /\ m.role \in {"inner", "outer"})
      om == SelectSeq(wm, LAMBDA m : m.role = "outer")
  IN IF IsPoly(r) /\ Len(om) = 1 /\ HasWay(ds, om[1].ref) /\ ~InterestingBut(r.tags, << <<"type", "true">> >>)
     THEN {om[1].ref} ELSE {}
KF_SharedOldStyleOuter(ds) ==
  \E i, j \in DOMAIN ds.rels : i < j /\ OldStyleOuterOf(ds, ds.rels[i]) \cap OldStyleOuterOf(ds, ds.rels[j]) # {}
\* ... and the only thing wrong is duplicates of such a way
OnlySharedOuterDuplicates(ds, F) ==
  /\ \A i \in DOMAIN F : Known(ds, F[i])
  /\ \A i, j \in DOMAIN F : (i < j /\ <<F[i].t, F[i].id>> = <<F[j].t, F[j].id>>) =>
        /\ F[i].t = "way"
        /\ Cardinality({k \in DOMAIN ds.rels : F[i].id \in OldStyleOuterOf(ds, ds.rels[k])}) >= 2

\* ---- known findings about ids that do not fit osm.FeatureID (negative, >= 2^40), fixed by b715ff7 / 51b669e;
\* see notes/C17.md.  ConvFormer reproduces both; Conv (= ConvIdeal) does not have them.
\* (a) polygon relation features get an empty type and the id modulo 2^40
KF_PolygonIdentityViaFeatureID(ds) ==
  \E i \in DOMAIN ds.rels : IsPoly(ds.rels[i]) /\
     (~Fits(ds.ids["relation"]) \/
      (~Fits(ds.ids["way"]) /\ \E j \in DOMAIN ds.rels[i].members :
                                  ds.rels[i].members[j].t = "way" /\ ds.rels[i].members[j].role = "outer"))
\* (b) negative ids of different types share one key of the membership map: an element is reported (and, for
\* nodes, treated) as a member of relations that list an element of another type with the same number
KF_NegativeIdsShareMembershipKey(ds) ==
  \E k \in DOMAIN Flat(ds) : LET m == Flat(ds)[k][2] IN
     ds.ids[m.t] = "neg" /\ \E t2 \in {"node", "way", "relation"} \ {m.t} : ds.ids[t2] = "neg" /\ HasElem(ds, t2, m.ref)
=============================================================================
