#!/bin/bash
# Offline setup: build every harness command once (warms the Go build cache). Checks rebuild on every run anyway.
set -e
cd "$(dirname "$0")"
export GOFLAGS=-mod=mod GOPROXY=off GOSUMDB=off GOTOOLCHAIN=local
mkdir -p harness/bin evidence/replays
cat /repo/go.sum harness/go.sum 2>/dev/null | sort -u > harness/go.sum.new && mv harness/go.sum.new harness/go.sum
for d in harness/cmd/*/; do n=$(basename $d); (cd harness && go build -tags verif -o bin/$n ./cmd/$n); done
java -cp /opt/veriftools/tla/tla2tools.jar tlc2.TLC -h >/dev/null 2>&1 || true
echo setup ok
